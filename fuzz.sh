#!/bin/bash
# ./fuzz.sh <C01|C13|C17> <runs-per-job> [jobs]
# Coverage-guided stage of the thorough tier of C01 / C13 (target `hostile`) and C17 (target `reader`): builds the
# libFuzzer target in harness/fuzz/fuzz_targets/ from /repo's current working tree (hook enabled), seeds it with
# byte-encoded cases from the proptest generators (hostile) or a few tiny inputs (reader), and runs <jobs> independent
# libFuzzer processes (seed = VERIF_SEED * 1000 + job) for <runs-per-job> executions each.
# The oracles inside the target are the ones of the proptest checks. A failing input is written by the target
# as a replay file for `check.sh <ID> replay`.
# Exit: 0 nothing found for <ID>, 1 violation of <ID> (VIOLATION line), 2 inconclusive (build failure, libFuzzer
# timeout / out-of-memory report, which are not treated as violations).
set -u
ID="${1:?property id}"; RUNS="${2:-200000}"; JOBS="${3:-16}"
HERE="$(cd "$(dirname "$0")" && pwd)"
SEED="${VERIF_SEED:-1}"
case "$ID" in C01|C13) TARGET=hostile ;; C17) TARGET=reader ;; *) echo "no fuzz target for $ID"; exit 2 ;; esac
export CARGO_NET_OFFLINE=true
unset RUST_BACKTRACE RUST_LIB_BACKTRACE CARGO_BUILD_RUSTFLAGS CARGO_ENCODED_RUSTFLAGS
cd "$HERE/harness" || exit 2
[ -f fuzz/Cargo.lock ] || cp Cargo.lock fuzz/Cargo.lock
mkdir -p "$HERE/harness/target"
LOG="$HERE/harness/target/fuzz-build-$$.log"
(
  flock 9
  RUSTFLAGS="--cfg gamedig_verif" cargo +nightly fuzz build "$TARGET" >"$LOG" 2>&1
) 9>"$HERE/harness/target/.fuzz.lock"
if [ $? -ne 0 ]; then
  echo "INCONCLUSIVE property=$ID fuzz target build failed"
  grep -E "^error" -A6 "$LOG" | head -40
  rm -f "$LOG"
  exit 2
fi
rm -f "$LOG"
BIN="$HERE/harness/fuzz/target/x86_64-unknown-linux-gnu/release/$TARGET"
GDV="$HERE/harness/target/verif/gdv"
WORK="$HERE/out/fuzz/$ID-$$"
rm -rf "$WORK"; mkdir -p "$WORK/seeds" "$WORK/replays"
if [ "$TARGET" = hostile ]; then
  NSEEDS=$("$GDV" fuzz-corpus "$WORK/seeds" 3000 "$SEED" | tail -1)
  MAXLEN=70000
else
  # operation sequences over short packets, VarInt byte strings, strings
  printf '\000\003\000\012\021abc\000def' >"$WORK/seeds/ops-le"; printf '\010\004\002\015\033\037\000\001\002\003\004\005\006\007' >"$WORK/seeds/ops-be"
  printf '\006\377\377\377\377\017' >"$WORK/seeds/varint"; printf '\007h\303\251llo' >"$WORK/seeds/string"
  NSEEDS=4
  MAXLEN=600
fi
T0=$(date +%s)
pids=()
for j in $(seq 1 "$JOBS"); do
  mkdir -p "$WORK/c$j" "$WORK/a$j"
  GDV_FUZZ_OUT="$WORK/replays" GDV_KNOWN_FINDINGS="$HERE/known_findings.json" \
    "$BIN" "$WORK/c$j" "$WORK/seeds" -runs="$RUNS" -seed=$((SEED * 1000 + j)) -max_len=$MAXLEN -len_control=0 \
    -timeout=25 -rss_limit_mb=8000 -print_final_stats=1 -artifact_prefix="$WORK/a$j/" >"$WORK/log$j" 2>&1 &
  pids+=($!)
done
abnormal=0
for p in "${pids[@]}"; do wait "$p" || abnormal=$((abnormal + 1)); done
T1=$(date +%s)
python3 - "$ID" "$WORK" "$JOBS" "$RUNS" "$SEED" "$NSEEDS" $((T1 - T0)) "$HERE" "$TARGET" <<'EOF'
import sys, json, glob, os, re, shutil
pid, work, jobs, runs, seed, nseeds, wall, here, target = sys.argv[1:10]
execs = 0; cov = 0; ft = 0; new_units = 0; other = []; timeouts = 0; ooms = 0
for f in glob.glob(work + '/log*'):
    t = open(f, errors='replace').read()
    m = re.search(r'stat::number_of_executed_units:\s+(\d+)', t); execs += int(m.group(1)) if m else 0
    m = re.search(r'stat::new_units_added:\s+(\d+)', t); new_units += int(m.group(1)) if m else 0
    cs = re.findall(r'cov: (\d+) ft: (\d+)', t)
    if cs: cov = max(cov, int(cs[-1][0])); ft = max(ft, int(cs[-1][1]))
    timeouts += len(re.findall(r'ERROR: libFuzzer: timeout', t)); ooms += len(re.findall(r'ERROR: libFuzzer: out-of-memory', t))
viol = []
for f in sorted(glob.glob(work + '/replays/*/*.json')):
    d = json.load(open(f))
    if d['property'] == pid:
        dst_dir = f'{here}/out/replays/{pid}'; os.makedirs(dst_dir, exist_ok=True)
        dst = f'{dst_dir}/{os.path.basename(f)}'; shutil.copy(f, dst); viol.append((d['signature'], dst))
    else:
        other.append({'property': d['property'], 'signature': d['signature']})
ev_path = f'{here}/evidence/{pid}.json'
try:
    ev = json.load(open(ev_path))
    ev['coverage']['coverage_guided_stage'] = {
        'engine': 'libFuzzer (cargo-fuzz, target harness/fuzz/fuzz_targets/' + target + '.rs)', 'jobs': int(jobs), 'runs_per_job': int(runs), 'executions': execs,
        'seed_corpus_files': int(nseeds), 'new_corpus_units': new_units, 'edge_coverage_max_job': cov, 'features_max_job': ft, 'wall_s': int(wall),
        'libfuzzer_timeout_reports': timeouts, 'libfuzzer_oom_reports': ooms,
        'violations_of_this_property': [s for s, _ in viol], 'findings_for_other_property': other,
        'oracle': 'as the generated tier: no panic / runaway (C01); single request <= 16 MiB, peak live <= 64 MiB, sends bounded (C13); agreement with the reference reader (C17)'}
    if viol: ev['result'] = 'violation'
    json.dump(ev, open(ev_path, 'w'), indent=1)
except Exception as e:
    print('note: evidence not updated:', e)
print(f"{pid} coverage-guided stage: {execs} executions in {jobs} jobs, {new_units} new corpus units, cov {cov} ft {ft}, {wall}s, seed {seed}")
for s, dst in viol:
    print('violation signature:', s)
    print(f'VIOLATION property={pid} replay={dst}')
if viol: sys.exit(1)
if timeouts or ooms:
    print(f'INCONCLUSIVE property={pid} libFuzzer reported {timeouts} timeouts / {ooms} out-of-memory conditions'); sys.exit(2)
sys.exit(0)
EOF
rc=$?
rm -rf "$WORK"
exit $rc
