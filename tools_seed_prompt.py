#!/usr/bin/env python3
"""Writes the prompt for a fresh sub-agent that seeds a property-breaking change (maintenance helper).
usage: tools_seed_prompt.py <property id> <suffix>   -> /tmp/agent-<id><suffix>.txt, expects the scratch worktree /tmp/seed-<id><suffix>
The agent sees ONLY the property's title / statement / quantifier and a list of earlier seeds to avoid (file + what it needs to manifest)."""
import sys, json, glob, re
pid, tag = sys.argv[1], (sys.argv[2] if len(sys.argv) > 2 else '')
prop = next(json.loads(l) for l in open('/verif/properties.jsonl') if json.loads(l)['id'] == pid)
wt = f'/tmp/seed-{pid}{tag}'
text = f"{pid} — {prop['title']}\n\nStatement: {prop['statement']}\n\nQuantifier: {prop['quantifier']['text']}\n"
prev = []
for d in sorted(glob.glob(f'/verif/seeded/{pid}-*')):
    m = json.load(open(d + '/meta.json'))
    files = re.findall(r'^\+\+\+ b/(.*)$', open(d + '/patch.diff').read(), re.M)
    prev.append(f"  - in {', '.join(files)}: manifests with {m.get('needs')}")
avoid = ("\n\nChanges that were ALREADY tried for this property (do something DIFFERENT: another file, protocol, entry point or mechanism among those the property covers; prefer parts of the code the earlier changes did not touch; consider less obvious places too: shared helpers, conversions between types, defaults, glue code between layers, error paths, rarely used options):\n" + "\n".join(prev) + "\n") if prev else "\n"
out = f"""You are helping to evaluate a verification tool. Work ONLY inside the git worktree {wt} (a checkout of the Rust project gamedig/rust-gamedig: a library + CLI that queries game servers over Valve A2S, GameSpy 1-3, Quake, Unreal 2, Minecraft and other protocols). Do not read or touch /repo, /verif or any other directory outside {wt} (your own scratch files may go in {wt}-work). There is no network; build with `cargo ... --offline`.

The following semantic property is supposed to hold for this code base:

{text}

Your job: make ONE realistic, small source change (a plausible bug a developer could introduce: an off-by-one, a wrong mask, a swapped field, a missing check, a wrong condition, a state that is not reset, ...) somewhere under {wt}/crates that BREAKS this property, while
  (1) the workspace still compiles: `cd {wt} && cargo build --workspace --offline`,
  (2) the existing test suite still gives the same result as before your change: `cargo test --workspace --no-fail-fast --offline` (note: exactly one test, errors::kind::tests::test_display, already fails before any change; everything else passes),
  (3) the breakage needs something SPECIFIC to manifest — a particular input value or shape, a particular arrival order, a fault at a particular point, a multi-step sequence, an unusual configuration, or two cooperating sites that each look fine alone — NOT something that any ordinary use would expose at once (so: do not simply break every query).{avoid}
Also write a DEMONSTRATION: a small Rust integration test file at {wt}/crates/lib/tests/seeded_demo.rs (or, if the change is in another crate, in that crate's tests directory) that FAILS with your change and PASSES without it. The demonstration may start its own UDP/TCP server thread on 127.0.0.1 to play the part of a game server and call the library's public API against it (keep timeouts short with gamedig::protocols::types::TimeoutSettings). Verify both directions yourself: run the demo with the change (must fail); save your source change with `git diff > {wt}-work/seed.patch` and undo it with `git apply -R` of that file (keep the demo file), run the demo again (must pass), then re-apply the patch with `git apply`. Do NOT use `git stash` (the stash is shared with other worktrees). Choose a change that really contradicts the property AS STATED (read the statement carefully, including what it explicitly allows).

When done, leave the worktree with your source change applied and the demo file present (uncommitted), and reply with: (a) the file(s) and a one-paragraph description of the change, (b) exactly what is needed for it to manifest, (c) the commands you ran and their outcomes. Keep the change minimal (a few lines)."""
open(f'/tmp/agent-{pid}{tag}.txt', 'w').write(out)
print(f'/tmp/agent-{pid}{tag}.txt')
