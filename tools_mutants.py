#!/usr/bin/env python3
"""Sensitivity harness: apply each hand-written mutant (string replacement in /repo), run the quick checks it
should turn red, restore /repo.  usage: tools_mutants.py [name-substring ...]
mutants/mutants.json: [{name, file, old, new, expect:[ids], note}]"""
import json,subprocess,sys,time,os
M=json.load(open('/verif/mutants/mutants.json'))
sel=sys.argv[1:]
res=[]
assert subprocess.run(['git','-C','/repo','status','--porcelain'],capture_output=True,text=True).stdout.strip()=='', "/repo not clean"
for m in M:
    if sel and not any(s in m['name'] for s in sel): continue
    p='/repo/'+m['file']; s=open(p).read()
    if m['old'] not in s:
        print('SKIP (pattern not found):',m['name']); res.append((m['name'],'pattern-missing')); continue
    open(p,'w').write(s.replace(m['old'],m['new'],1))
    try:
        for pid in m['expect']:
            t=time.time()
            r=subprocess.run(['/verif/check.sh',pid,'quick'],capture_output=True,text=True,env={**os.environ,'VERIF_SEED':os.environ.get('VERIF_SEED','7')})
            sig=[l for l in r.stdout.splitlines() if l.startswith('violation signature')]
            verdict={0:'MISSED',1:'caught',2:'inconclusive'}.get(r.returncode,str(r.returncode))
            print(f"{m['name']:45s} {pid} {verdict:12s} {time.time()-t:5.1f}s  {sig[0][21:120] if sig else r.stdout.strip().splitlines()[-1][:100] if r.stdout.strip() else ''}")
            res.append((m['name'],pid,verdict))
    finally:
        subprocess.run(['git','-C','/repo','checkout','--','.'])
missed=[r for r in res if r[-1]!='caught']
print('missed/other:',missed)
