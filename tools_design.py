#!/usr/bin/env python3
"""Regenerates the generated sections (§8 findings, §10 mutants/seeded) at the end of DESIGN.md (maintenance helper)."""
import json,os,glob
p='/verif/DESIGN.md'
s=open(p).read()
marker='\n<!-- GENERATED BELOW: tools_design.py -->\n'
if marker in s: s=s[:s.index(marker)]
k=json.load(open('/verif/known_findings.json'))['findings']
out=[marker]
out.append("## 8. Defects found in gamedig/rust-gamedig (from known_findings.json)\n")
out.append("Every entry was first reproduced by its check against the real code (replay file in `replays/<ID>/`), then either repaired by a minimal unguarded `fix:` commit in /repo or recorded as an open known finding. `fixed` entries suppress nothing; their replays run in the regression tier of every quick check.\n")
out.append("| Property | Status | Commit | What failed |\n|---|---|---|---|")
for f in k:
    wf=f['what_fails'].replace('|','/')
    out.append(f"| {f['property']} | {f['status']} | {f.get('commit','') or ''} | {wf} |")
out.append("")
m=json.load(open('/verif/mutants/mutants.json'))
out.append("## 10. Which checks catch which changes\n")
out.append("### 10.1 Hand-written mutants (`mutants/mutants.json`, run by `tools_mutants.py`)\n")
out.append("Each mutant is a string replacement in /repo that compiles and keeps the 57-test baseline; `tools_mutants.py` applies it, runs the listed quick checks (seed 7), and restores /repo. All are caught (exit 1) by the listed check.\n")
out.append("| Mutant | Caught by | Site |\n|---|---|---|")
for x in m:
    out.append(f"| {x['name']} | {', '.join(x['expect'])} | {x['file'].replace('crates/lib/src/','')} |")
out.append("")
out.append("### 10.2 Independently seeded changes (`seeded/<id>/`)\n")
rows=[]
for d in sorted(glob.glob('/verif/seeded/*/meta.json')):
    mj=json.load(open(d))
    rows.append(f"| {os.path.basename(os.path.dirname(d))} | {mj.get('property')} | {mj.get('needs','').replace('|','/')} | {mj.get('caught_by','')} | {(mj.get('history') or mj.get('note','')).replace('|','/')} |")
if rows:
    out.append("Written by fresh sub-agents that saw only the property text and a scratch worktree; confirmed by me (compiles, baseline unchanged, demonstration fails with / passes without the change) before being run against the checks.\n")
    out.append("| Seed | Breaks | Needs to manifest | Caught by (quick) | Note |\n|---|---|---|---|---|")
    out+=rows
else:
    out.append("(none recorded yet)")
out.append("")
open(p,'w').write(s+"\n".join(out))
print("ok")
