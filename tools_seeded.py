#!/usr/bin/env python3
"""Confirm a sub-agent's seeded change in its scratch worktree, store it under /verif/seeded/<name>/ and run checks against it.
usage: tools_seeded.py <name> <worktree> <property> "<what it needs to manifest>" <check-id> [<check-id> ...]"""
import json,os,subprocess,sys,shutil,time
name,wt,prop,needs=sys.argv[1:5]; checks=sys.argv[5:]
def sh(cmd,cwd=None,env=None):
    return subprocess.run(cmd,shell=True,cwd=cwd,capture_output=True,text=True,env=env)
out=f'/verif/seeded/{name}'; os.makedirs(out,exist_ok=True)
patch=sh("git diff",cwd=wt).stdout
assert patch.strip(), "no source change in worktree"
open(f'{out}/patch.diff','w').write(patch)
demos=[l[3:] for l in sh("git status --porcelain -uall",cwd=wt).stdout.splitlines() if l.startswith('??') and l.endswith('.rs')]
assert demos, "no demo file"
for d in demos: shutil.copy(os.path.join(wt,d), f'{out}/'+os.path.basename(d))
demo=demos[0]; test_name=os.path.basename(demo)[:-3]
feat=' --features clap,serde' if 'crates/lib' in demo else ''
pkg='gamedig' if 'crates/lib' in demo else ('gamedig_cli' if 'crates/cli' in demo else 'gamedig-id-tests')
ran=[]
# with the change: build, demo fails, suite as baseline
r=sh("cargo build --workspace --offline",cwd=wt); ran.append(("cargo build --workspace --offline (with change)", r.returncode)); assert r.returncode==0, r.stderr[-500:]
r=sh(f"cargo test -p {pkg}{feat} --test {test_name} --offline",cwd=wt); ran.append((f"demo with change", r.returncode)); demo_with=r.returncode
r=sh("cargo test --workspace --no-fail-fast --offline 2>&1 | grep -E '^test result|^test .* FAILED'",cwd=wt); suite=r.stdout
failed=[l for l in suite.splitlines() if 'FAILED' in l and l.startswith('test ')]
# without the change
sh("git apply -R "+f'{out}/patch.diff',cwd=wt)
r=sh(f"cargo test -p {pkg}{feat} --test {test_name} --offline",cwd=wt); ran.append(("demo without change", r.returncode)); demo_without=r.returncode
sh("git apply "+f'{out}/patch.diff',cwd=wt)
ok = demo_with!=0 and demo_without==0
# existing failures must be exactly test_display (+ the demo's own tests)
other=[l for l in failed if 'test_display' not in l and test_name not in l]
# the demo target's tests show as "test <name> ... FAILED" without the file name; accept failures only if the count of failing targets besides lib is the demo
print("demo with change rc",demo_with,"without rc",demo_without,"suite failed lines:",failed)
results={}
if ok:
    assert sh("git status --porcelain -uall",cwd='/repo').stdout.strip()=='', "/repo dirty"
    sh(f"git apply {out}/patch.diff",cwd='/repo')
    try:
        for c in checks:
            t=time.time(); r=sh(f"/verif/check.sh {c} quick",env={**os.environ,'VERIF_SEED':'1'})
            sig=[l[21:160] for l in r.stdout.splitlines() if l.startswith('violation signature')]
            results[c]={"exit":r.returncode,"signatures":sig[:3],"secs":round(time.time()-t,1)}
            print(c, r.returncode, sig[:2])
    finally:
        sh("git checkout -- .",cwd='/repo')
meta={"property":prop,"needs":needs,"confirmed":{"compiles":True,"demo_fails_with_change":demo_with!=0,"demo_passes_without_change":demo_without==0,"baseline_failures_with_change":failed},
      "ran":[f"{a}: rc={b}" for a,b in ran],"checks_run":results,"caught_by":", ".join(c for c,v in results.items() if v['exit']==1) or "MISSED","demo":os.path.basename(demo)}
json.dump(meta,open(f'{out}/meta.json','w'),indent=1)
print("confirmed" if ok else "NOT CONFIRMED", meta['caught_by'])
