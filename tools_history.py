#!/usr/bin/env python3
"""Record that a seeded change first missed is now caught: tools_history.py <name> <caught-by> <signature> "<history>" """
import json,sys
name,caught,sig,hist=sys.argv[1:5]
p=f'/verif/seeded/{name}/meta.json'; d=json.load(open(p))
d['caught_by']=caught; d['history']=hist
d.setdefault('checks_run',{})[caught.split(',')[0].strip()]={"exit":1,"signatures":[sig],"after":"strengthening"}
json.dump(d,open(p,'w'),indent=1)
