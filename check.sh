#!/bin/bash
# ./check.sh <ID> quick|thorough          run the check for one property
# ./check.sh <ID> replay <file>           re-execute one saved case
# Rebuilds the harness (and, through its path dependency, gamedig) from /repo's
# current working tree with the hook enabled. Exit: 0 held, 1 violation, 2 inconclusive.
set -u
ID="${1:?property id}"; MODE="${2:-quick}"
HERE="$(cd "$(dirname "$0")" && pwd)"
export CARGO_NET_OFFLINE=true
unset RUST_BACKTRACE RUST_LIB_BACKTRACE RUSTFLAGS CARGO_BUILD_RUSTFLAGS CARGO_ENCODED_RUSTFLAGS
SEED="${VERIF_SEED:-1}"
REPLAY=""
if [ "$MODE" = replay ]; then REPLAY="$(realpath "${3:?replay file}")"; fi
cd "$HERE/harness" || exit 2
[ -f Cargo.lock ] || cp /repo/Cargo.lock Cargo.lock
LOG="$HERE/harness/target/build-$$.log"
mkdir -p "$HERE/harness/target"
(
  flock 9
  cargo build --profile verif >"$LOG" 2>&1
) 9>"$HERE/harness/target/.build.lock"
rc=$?
if [ $rc -eq 0 ] && { [ "$ID" = C19 ] || [ "$ID" = C09 ]; }; then
  # C19 (and one class of C09) drives the real command line tool: build it from /repo's working tree too (no hook needed)
  (
    flock 9
    cd /repo && cargo build -p gamedig_cli --offline --target-dir "$HERE/harness/target/cli" >"$LOG" 2>&1
  ) 9>"$HERE/harness/target/.cli.lock"
  rc=$?
fi
if [ $rc -ne 0 ]; then
  echo "INCONCLUSIVE property=$ID harness build failed (does /repo still compile?)"
  grep -E "^(error|warning: unused)" -A6 "$LOG" | head -60
  rm -f "$LOG"
  exit 2
fi
rm -f "$LOG"
BIN="$HERE/harness/target/verif/gdv"
# the command-line tool C19 drives: the one this script built from /repo, wherever this copy of /verif lives
export GDV_CLI="$HERE/harness/target/cli/debug/gamedig_cli"
case "$MODE" in
  quick|thorough)
    "$BIN" "$ID" --tier "$MODE" --seed "$SEED" --verif-dir "$HERE"
    rc=$? ;;
  replay)
    "$BIN" "$ID" --replay "$REPLAY" --verif-dir "$HERE"
    rc=$? ;;
  *) echo "unknown mode $MODE"; exit 2 ;;
esac
if [ $rc -gt 2 ]; then
  echo "INCONCLUSIVE property=$ID harness ended abnormally (status $rc)"
  exit 2
fi
exit $rc
