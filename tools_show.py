#!/usr/bin/env python3
import json,sys
d=json.load(open(sys.argv[1]))
print("signature:",d['signature']," origin:",d.get('origin'),' shrink',d.get('shrink_steps'))
det=d['detail']
for k in ('first_difference','difference','observed_error','panic','at'):
    if k in det: print(k,':',json.dumps(det[k],ensure_ascii=False)[:1500])
for l in det.get('wire',[]): print('   ',l[:400])
if len(sys.argv)>2: print(json.dumps(d['case'],ensure_ascii=False)[:int(sys.argv[2])])
