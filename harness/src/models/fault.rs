//! Fault injection around a valid family server: per-attempt outcomes for one request unit.

use gamedig::verif_hook::Proto;
use serde::{Deserialize, Serialize};
use std::cell::RefCell;
use std::net::SocketAddr;
use std::rc::Rc;

use crate::entries::Family;
use crate::models::gamespy::{GS3_HANDSHAKE};
use crate::models::minecraft::{parse_handshake, BEDROCK_REQUEST, REQ_1_4, REQ_1_6, REQ_B1_8};
use crate::models::valve::{classify, Kind};
use crate::wire::{Outbox, Responder};

#[derive(Debug, Clone, Copy, PartialEq, Eq, Hash, Serialize, Deserialize)]
pub enum Fault {
    Valid,
    /// no reply (timeout class)
    Silent,
    /// the send itself fails (timeout class)
    SendFails,
    /// a reply the parser must reject (never retried)
    Malformed,
    /// a reply of several datagrams of which only the first arrives, then silence (timeout class); one-datagram replies: silence
    Partial,
}

impl Fault {
    pub fn timeout_class(self) -> bool { matches!(self, Fault::Silent | Fault::SendFails | Fault::Partial) }
}

pub const FAULTS: [Fault; 5] = [Fault::Valid, Fault::Silent, Fault::SendFails, Fault::Malformed, Fault::Partial];

/// (unit, is the first request of an attempt) for a send, or None if it cannot be classified.
pub fn unit_of(family: Family, proto: Proto, data: &[u8]) -> Option<(u8, bool)> {
    match family {
        Family::Valve(_) => {
            let (k, carried) = classify(data)?;
            let unit = match k {
                Kind::Info => 0,
                Kind::Players => 1,
                Kind::Rules => 2,
            };
            let fresh = match k {
                Kind::Info => carried.is_none(),
                _ => carried == Some([0xFF; 4]),
            };
            Some((unit, fresh))
        }
        Family::Ffow => Some((0, data == crate::models::misc::FFOW_REQUEST)),
        Family::Unreal2 => {
            if data.len() == 5 && data[4] <= 2 {
                Some((data[4], true))
            } else {
                None
            }
        }
        Family::Gs3 | Family::Jc2m => Some((0, data == GS3_HANDSHAKE)),
        Family::McJava => Some((0, parse_handshake(data).is_some() && data.len() > 2)),
        Family::McBedrock => Some((0, data == BEDROCK_REQUEST)),
        Family::McLegacy(_) => Some((0, data == REQ_1_6 || data == REQ_1_4 || data == REQ_B1_8)),
        _ => {
            let _ = proto;
            Some((0, true))
        }
    }
}

/// A reply that is well-formed for the transport but must be rejected by the parser.
pub fn malformed(family: Family, unit: u8, step: u8) -> Vec<u8> {
    match family {
        Family::Valve(_) => {
            crate::models::valve::malformed_reply(match unit {
                0 => Kind::Info,
                1 => Kind::Players,
                _ => Kind::Rules,
            })
        }
        Family::Ffow => b"\xFF\xFF\xFF\xFF\x49\x01".to_vec(),
        Family::Gs1 => b"\\hostname\\x\\queryid\\1.2.3\\final\\".to_vec(),
        Family::Gs2 => vec![0x01, 0x00, 0x00, 0x00, 0x01, 0x00],
        Family::Gs3 | Family::Jc2m => {
            if step == 0 {
                b"\x09\x00\x00\x00\x01abc\x00".to_vec()
            } else {
                b"\x00\x00\x00\x00\x01nosplit\x00\x00\x00".to_vec()
            }
        }
        Family::Quake(_) => b"\xFF\xFF\xFF\xFFxyz\n".to_vec(),
        Family::Unreal2 => crate::models::unreal2::malformed(unit),
        Family::McJava => vec![0x02, 0x05, 0x00],
        Family::McBedrock => vec![0x1D, 0x00],
        Family::McLegacy(_) => vec![0xFE, 0x00, 0x00],
        Family::Mindustry => vec![0x05, 0x41],
        Family::Savage2 => vec![0x00; 5],
        _ => vec![0x00],
    }
}

fn cut_len(len: usize, how: u8) -> usize {
    match how {
        1 => len / 2,
        2 => len.saturating_sub(1),
        3 => 5.min(len.saturating_sub(1)),
        4 => 1.min(len.saturating_sub(1)),
        // 6..=9 keep the length and damage one byte (see `damage`)
        _ => len,
    }
}

/// Variants 6..=9: one byte of the reply is inverted (first, fifth, middle, last).
fn damage(bytes: &mut [u8], how: u8) {
    if bytes.is_empty() {
        return;
    }
    let at = match how {
        6 => 0,
        7 => 4.min(bytes.len() - 1),
        8 => bytes.len() / 2,
        9 => bytes.len() - 1,
        _ => return,
    };
    bytes[at] ^= 0xFF;
}

/// Families whose reply to a request is one datagram / one stream and that have no challenge step: cutting the valid reply short gives
/// a reply the client can only accept or reject (it cannot legitimately wait for more).
pub fn mangle_applies(family: Family) -> bool {
    matches!(family, Family::Quake(_) | Family::Gs2 | Family::Mindustry | Family::McBedrock | Family::McJava | Family::McLegacy(_))
}

#[derive(Debug, Default, Clone)]
pub struct FaultLog {
    /// per attempt of the unit under test: (planned fault, did it take effect)
    pub attempts: Vec<(Fault, bool)>,
    /// bytes of the first request of every attempt
    pub first_requests: Vec<Vec<u8>>,
    pub unclassified: usize,
    /// attempts in which a multi-datagram reply was cut to its first datagram
    pub partial_hits: usize,
    /// replies of several datagrams whose last datagram was replaced by a malformed one (mangle 10)
    pub tail_hits: usize,
}

pub struct Faulty {
    pub inner: Box<dyn Responder>,
    pub family: Family,
    pub unit: u8,
    /// the send (within an attempt, from 0) at which the fault strikes
    pub step: u8,
    pub plan: Vec<Fault>,
    pub log: Rc<RefCell<FaultLog>>,
    /// 0: a malformed outcome is the fixed hand-written reply; 1..=4: it is the valid reply cut short (half, last byte off, five bytes, one byte); 5: an empty datagram / an empty stream; 6..=9: the valid reply with one byte inverted (first, fifth, middle, last)
    pub mangle: u8,
    cur: Fault,
    cur_step: u8,
    swallowing: bool,
    /// TCP, cut replies: everything the inner server has written during this attempt (the client reads after its last send)
    mangling: Option<Vec<u8>>,
}

impl Faulty {
    pub fn new(inner: Box<dyn Responder>, family: Family, unit: u8, step: u8, plan: Vec<Fault>) -> (Self, Rc<RefCell<FaultLog>>) {
        let log = Rc::new(RefCell::new(FaultLog::default()));
        (
            Self {
                inner,
                family,
                unit,
                step,
                plan,
                log: log.clone(),
                mangle: 0,
                cur: Fault::Valid,
                cur_step: 0,
                swallowing: false,
                mangling: None,
            },
            log,
        )
    }
}

impl Responder for Faulty {
    fn on_open(&mut self, proto: Proto, peer: &SocketAddr, out: &mut Outbox) { self.inner.on_open(proto, peer, out) }

    fn on_send(&mut self, proto: Proto, peer: &SocketAddr, nth: usize, data: &[u8], out: &mut Outbox) {
        let Some((unit, start)) = unit_of(self.family, proto, data) else {
            self.log.borrow_mut().unclassified += 1;
            self.inner.on_send(proto, peer, nth, data, out);
            return;
        };
        if unit != self.unit {
            self.inner.on_send(proto, peer, nth, data, out);
            return;
        }
        if start {
            let mut l = self.log.borrow_mut();
            self.cur = self.plan.get(l.attempts.len()).copied().unwrap_or(Fault::Valid);
            l.attempts.push((self.cur, false));
            l.first_requests.push(data.to_vec());
            self.cur_step = 0;
            self.swallowing = false;
            self.mangling = None;
        } else {
            self.cur_step = self.cur_step.saturating_add(1);
        }
        if let Some(full) = &mut self.mangling {
            // a later send of an attempt whose stream reply is being cut short: let the server write, then cut the whole reply again
            let n_st = out.conn.stream.len();
            let base = n_st - cut_len(full.len(), self.mangle).min(n_st);
            self.inner.on_send(proto, peer, nth, data, out);
            let new: Vec<u8> = out.conn.stream.split_off(n_st);
            full.extend_from_slice(&new);
            out.conn.stream.truncate(base);
            let k = cut_len(full.len(), self.mangle);
            let mut part = full[.. k].to_vec();
            damage(&mut part, self.mangle);
            out.conn.stream.extend_from_slice(&part);
            if !full.is_empty() {
                out.close();
            }
            return;
        }
        if self.swallowing {
            return;
        }
        if self.cur != Fault::Valid && self.cur_step == self.step {
            if let Some(a) = self.log.borrow_mut().attempts.last_mut() {
                a.1 = true;
            }
            self.swallowing = true;
            match self.cur {
                Fault::Silent => {}
                Fault::SendFails => out.fail(),
                // streams have no datagram boundaries: nothing arrives
                Fault::Partial if proto == Proto::Tcp => {}
                Fault::Partial => {
                    let n_dg = out.conn.inbox.len();
                    self.inner.on_send(proto, peer, nth, data, out);
                    let produced = out.conn.inbox.len() - n_dg;
                    // (an Unreal 2 list has no announced length: its first datagram alone is a complete, shorter reply, so nothing is delivered there)
                    let counted = matches!(self.family, Family::Valve(_) | Family::Ffow | Family::Gs1 | Family::Gs3 | Family::Jc2m);
                    out.conn.inbox.truncate(if produced >= 2 && counted { n_dg + 1 } else { n_dg });
                    if produced >= 2 && counted {
                        self.log.borrow_mut().partial_hits += 1;
                    }
                }
                // an empty reply: no valid reply of any protocol is empty
                // a reply of several datagrams whose LAST datagram has a body no parser can accept (Unreal 2 lists: a UCS-2 string
                // announcing five characters with one byte behind it); replies of one datagram: the fixed malformed reply
                Fault::Malformed if self.mangle == 10 => {
                    let n_dg = out.conn.inbox.len();
                    self.inner.on_send(proto, peer, nth, data, out);
                    let produced = out.conn.inbox.len() - n_dg;
                    if produced >= 2 && self.family == Family::Unreal2 && proto == Proto::Udp {
                        if let Some(last) = out.conn.inbox.back_mut() {
                            last.truncate(5);
                            last.extend_from_slice(&[0x85, 0x61]);
                        }
                        self.log.borrow_mut().tail_hits += 1;
                    } else {
                        out.conn.inbox.truncate(n_dg);
                        let m = malformed(self.family, self.unit, self.step);
                        match proto {
                            Proto::Udp => out.datagram(m),
                            Proto::Tcp => {
                                out.stream(&m);
                                out.close();
                            }
                        }
                    }
                }
                Fault::Malformed if self.mangle == 5 => {
                    match proto {
                        Proto::Udp => out.datagram(Vec::new()),
                        Proto::Tcp => out.close(),
                    }
                }
                Fault::Malformed if self.mangle != 0 && mangle_applies(self.family) => {
                    // the valid reply, cut short
                    let (n_dg, n_st) = (out.conn.inbox.len(), out.conn.stream.len());
                    self.inner.on_send(proto, peer, nth, data, out);
                    let cut = cut_len;
                    if proto == Proto::Tcp && out.conn.inbox.len() == n_dg {
                        // stream protocols: the reply may only be written after a later send of this attempt
                        let full: Vec<u8> = out.conn.stream.split_off(n_st);
                        let k = cut(full.len(), self.mangle);
                        let mut part = full[.. k].to_vec();
                        damage(&mut part, self.mangle);
                        out.conn.stream.extend_from_slice(&part);
                        if !full.is_empty() {
                            out.close();
                        }
                        self.mangling = Some(full);
                        self.swallowing = false;
                        return;
                    }
                    let single_dg = out.conn.inbox.len() == n_dg + 1 && out.conn.stream.len() == n_st;
                    let stream_only = out.conn.inbox.len() == n_dg && out.conn.stream.len() > n_st;
                    if single_dg && out.conn.inbox.back().map(|d| d.len() > 1).unwrap_or(false) {
                        let d = out.conn.inbox.back_mut().unwrap();
                        let k = cut(d.len(), self.mangle);
                        d.truncate(k);
                        damage(d, self.mangle);
                    } else if stream_only && out.conn.stream.len() - n_st > 1 {
                        let k = cut(out.conn.stream.len() - n_st, self.mangle);
                        out.conn.stream.truncate(n_st + k);
                        damage(&mut out.conn.stream[n_st ..], self.mangle);
                        out.close();
                    } else {
                        // not a single reply: the fixed malformed reply instead
                        out.conn.inbox.truncate(n_dg);
                        out.conn.stream.truncate(n_st);
                        let m = malformed(self.family, self.unit, self.step);
                        match proto {
                            Proto::Udp => out.datagram(m),
                            Proto::Tcp => {
                                out.stream(&m);
                                out.close();
                            }
                        }
                    }
                }
                Fault::Malformed => {
                    let m = malformed(self.family, self.unit, self.step);
                    match proto {
                        Proto::Udp => out.datagram(m),
                        Proto::Tcp => {
                            out.stream(&m);
                            out.close();
                        }
                    }
                }
                Fault::Valid => {}
            }
            return;
        }
        self.inner.on_send(proto, peer, nth, data, out);
    }
}
