//! Minecraft: Java Server List Ping, Bedrock unconnected pong, legacy kick packets, and a
//! server that speaks a subset of the five variants.

use gamedig::games::minecraft::{BedrockResponse, GameMode, JavaResponse, LegacyGroup, Player, Server};
use gamedig::verif_hook::Proto;
use proptest::prelude::*;
use serde::{Deserialize, Serialize};
use serde_json::Value;
use std::net::SocketAddr;

use crate::util::text;
use crate::wire::{Outbox, Responder};

pub fn varint(v: i32) -> Vec<u8> {
    let mut x = v as u32;
    let mut out = Vec::new();
    loop {
        let b = (x & 0x7F) as u8;
        x >>= 7;
        if x == 0 {
            out.push(b);
            return out;
        }
        out.push(b | 0x80);
    }
}

pub fn read_varint(data: &[u8], pos: &mut usize) -> Option<i32> {
    let mut r: u32 = 0;
    for i in 0 .. 5 {
        let b = *data.get(*pos)?;
        *pos += 1;
        r |= ((b & 0x7F) as u32) << (7 * i);
        if b & 0x80 == 0 {
            return Some(r as i32);
        }
    }
    None
}

// ---------------------------------------------------------------------------------
// Java

#[derive(Debug, Clone, Serialize, Deserialize, PartialEq)]
pub enum Sample {
    Absent,
    Null,
    List(Vec<(String, String)>),
}

#[derive(Debug, Clone, Serialize, Deserialize, PartialEq)]
pub enum Description {
    Absent,
    Text(String),
    Component { text: String, extra: Vec<(String, String)>, bold: Option<bool> },
}

#[derive(Debug, Clone, Serialize, Deserialize, PartialEq)]
pub struct JavaStatus {
    pub version_name: String,
    pub protocol: i32,
    pub max: u32,
    pub online: u32,
    pub sample: Sample,
    pub description: Description,
    pub favicon: Option<String>,
    pub previews_chat: Option<bool>,
    pub enforces_secure_chat: Option<bool>,
    /// unknown extra top-level members (key, JSON text)
    pub extras: Vec<(String, String)>,
    /// member order seed and whitespace style
    pub order: u64,
    pub spaced: bool,
    pub with_pong: bool,
}

const ANY: &[char] = &[];

fn json_extra() -> impl Strategy<Value = (String, String)> {
    (
        prop::sample::select(vec!["modinfo", "forgeData", "preventsChatReports", "x", "isModded", "players2"]),
        prop_oneof![
            Just("true".to_string()),
            Just("null".to_string()),
            crate::util::num::<i64>().prop_map(|n| n.to_string()),
            text(ANY, 20).prop_map(|s| serde_json::to_string(&s).unwrap()),
            Just("{\"type\":\"FML\",\"modList\":[]}".to_string()),
            Just("[1,2,{\"a\":\"b\"}]".to_string()),
        ],
    )
        .prop_map(|(k, v)| (k.to_string(), v))
}

pub fn java_status() -> impl Strategy<Value = JavaStatus> {
    (
        (text(ANY, 40), crate::util::num::<i32>(), crate::util::num::<u32>(), crate::util::num::<u32>()),
        prop_oneof![
            2 => Just(Sample::Absent),
            1 => Just(Sample::Null),
            1 => Just(Sample::List(vec![])),
            4 => prop::collection::vec(
                (
                    text(ANY, 16),
                    prop_oneof![
                        14 => "[0-9a-f]{8}-[0-9a-f]{4}-[0-9a-f]{4}-[0-9a-f]{4}-[0-9a-f]{12}".prop_map(|s| s),
                        // the id vanilla servers send for every player with hide-online-players, and other degenerate ids
                        1 => Just("00000000-0000-0000-0000-000000000000".to_string()),
                        1 => prop::sample::select(vec!["ffffffff-ffff-ffff-ffff-ffffffffffff", "", "00000000000000000000000000000000"]).prop_map(|s| s.to_string()),
                    ],
                ),
                1..13
            ).prop_map(Sample::List),
        ],
        prop_oneof![
            1 => Just(Description::Absent),
            3 => text(ANY, 80).prop_map(Description::Text),
            3 => (text(ANY, 40), prop::collection::vec((text(ANY, 20), prop::sample::select(vec!["red", "gold", "#00ff00"]).prop_map(|s| s.to_string())), 0..4), prop::option::of(any::<bool>()))
                .prop_map(|(text, extra, bold)| Description::Component { text, extra, bold }),
        ],
        (prop::option::of("data:image/png;base64,[A-Za-z0-9+/]{0,200}"), prop::option::of(any::<bool>()), prop::option::of(any::<bool>())),
        prop::collection::vec(json_extra(), 0..3),
        (crate::util::num::<u64>(), any::<bool>(), any::<bool>()),
    )
        .prop_map(|((version_name, protocol, max, online), sample, description, (favicon, previews_chat, enforces_secure_chat), extras, (order, spaced, with_pong))| {
            let extras = crate::util::dedup_by_key(extras);
            JavaStatus {
                version_name,
                protocol,
                max,
                online,
                sample,
                description,
                favicon,
                previews_chat,
                enforces_secure_chat,
                extras,
                order,
                spaced,
                with_pong,
            }
        })
}

fn js(s: &str) -> String { serde_json::to_string(s).unwrap() }

fn object(mut members: Vec<(String, String)>, seed: &mut u64, spaced: bool) -> String {
    // deterministic shuffle
    for i in (1 .. members.len()).rev() {
        *seed = seed.wrapping_mul(6364136223846793005).wrapping_add(1442695040888963407);
        let j = (*seed >> 33) as usize % (i + 1);
        members.swap(i, j);
    }
    let (sep, colon) = if spaced { (" ,\n  ", " : ") } else { (",", ":") };
    let body: Vec<String> = members.iter().map(|(k, v)| format!("{}{colon}{v}", js(k))).collect();
    if spaced {
        format!("{{ {} }}", body.join(sep))
    } else {
        format!("{{{}}}", body.join(sep))
    }
}

impl JavaStatus {
    pub fn description_value(&self) -> Value {
        match &self.description {
            Description::Absent => Value::Null,
            Description::Text(t) => Value::String(t.clone()),
            Description::Component { text, extra, bold } => {
                let mut m = serde_json::Map::new();
                m.insert("text".into(), Value::String(text.clone()));
                if !extra.is_empty() {
                    m.insert(
                        "extra".into(),
                        Value::Array(
                            extra
                                .iter()
                                .map(|(t, c)| {
                                    let mut e = serde_json::Map::new();
                                    e.insert("text".into(), Value::String(t.clone()));
                                    e.insert("color".into(), Value::String(c.clone()));
                                    Value::Object(e)
                                })
                                .collect(),
                        ),
                    );
                }
                if let Some(b) = bold {
                    m.insert("bold".into(), Value::Bool(*b));
                }
                Value::Object(m)
            }
        }
    }

    pub fn json(&self) -> String {
        let mut seed = self.order;
        let sp = self.spaced;
        let version = object(vec![("name".into(), js(&self.version_name)), ("protocol".into(), self.protocol.to_string())], &mut seed, sp);
        let mut pm = vec![("max".to_string(), self.max.to_string()), ("online".to_string(), self.online.to_string())];
        match &self.sample {
            Sample::Absent => {}
            Sample::Null => pm.push(("sample".into(), "null".into())),
            Sample::List(l) => {
                let items: Vec<String> = l
                    .iter()
                    .map(|(n, id)| object(vec![("name".into(), js(n)), ("id".into(), js(id))], &mut seed, sp))
                    .collect();
                pm.push(("sample".into(), format!("[{}]", items.join(","))));
            }
        }
        let players = object(pm, &mut seed, sp);
        let mut top = vec![("version".to_string(), version), ("players".to_string(), players)];
        if self.description != Description::Absent {
            top.push(("description".into(), self.description_value().to_string()));
        }
        if let Some(f) = &self.favicon {
            top.push(("favicon".into(), js(f)));
        }
        if let Some(b) = self.previews_chat {
            top.push(("previewsChat".into(), b.to_string()));
        }
        if let Some(b) = self.enforces_secure_chat {
            top.push(("enforcesSecureChat".into(), b.to_string()));
        }
        for (k, v) in &self.extras {
            top.push((k.clone(), v.clone()));
        }
        object(top, &mut seed, sp)
    }

    /// The bytes the server writes before closing the stream.
    pub fn stream(&self) -> Vec<u8> {
        let json = self.json();
        let mut body = vec![0x00];
        body.extend(varint(json.len() as i32));
        body.extend_from_slice(json.as_bytes());
        let mut out = varint(body.len() as i32);
        out.extend(body);
        if self.with_pong {
            out.extend_from_slice(&[9, 1, 0, 0, 0, 0, 0, 0, 0, 42]);
        }
        out
    }

    /// Expected response; `description` holds the canonical JSON text of the member.
    pub fn expected(&self) -> JavaResponse {
        JavaResponse {
            game_version: self.version_name.clone(),
            protocol_version: self.protocol,
            players_maximum: self.max,
            players_online: self.online,
            players: match &self.sample {
                Sample::Absent | Sample::Null => None,
                Sample::List(l) => {
                    Some(
                        l.iter()
                            .map(|(n, id)| {
                                Player {
                                    name: n.clone(),
                                    id: id.clone(),
                                }
                            })
                            .collect(),
                    )
                }
            },
            description: self.description_value().to_string(),
            favicon: self.favicon.clone(),
            previews_chat: self.previews_chat,
            enforces_secure_chat: self.enforces_secure_chat,
            server_type: Server::Java,
        }
    }
}

/// Java responses compare equal when all fields are equal and the descriptions are the same JSON value.
pub fn java_equal(a: &JavaResponse, b: &JavaResponse) -> bool {
    let da: Option<Value> = serde_json::from_str(&a.description).ok();
    let db: Option<Value> = serde_json::from_str(&b.description).ok();
    let desc_eq = match (da, db) {
        (Some(x), Some(y)) => x == y,
        _ => a.description == b.description,
    };
    let mut a2 = a.clone();
    a2.description = b.description.clone();
    desc_eq && &a2 == b
}

/// What a Java handshake must look like (decoded).
#[derive(Debug, Clone, PartialEq)]
pub struct Handshake {
    pub protocol: i32,
    pub host: String,
    pub port_be: u16,
    pub next_state: i32,
}

pub fn parse_handshake(data: &[u8]) -> Option<Handshake> {
    let mut p = 0;
    let len = read_varint(data, &mut p)? as usize;
    if data.len() - p != len {
        return None;
    }
    if read_varint(data, &mut p)? != 0 {
        return None;
    }
    let protocol = read_varint(data, &mut p)?;
    let hl = read_varint(data, &mut p)? as usize;
    let host = String::from_utf8(data.get(p .. p + hl)?.to_vec()).ok()?;
    p += hl;
    let port_be = u16::from_be_bytes([*data.get(p)?, *data.get(p + 1)?]);
    p += 2;
    let next_state = read_varint(data, &mut p)?;
    if p != data.len() {
        return None;
    }
    Some(Handshake {
        protocol,
        host,
        port_be,
        next_state,
    })
}

// ---------------------------------------------------------------------------------
// Bedrock

#[derive(Debug, Clone, Serialize, Deserialize, PartialEq)]
pub struct BedrockStatus {
    pub guid: [u8; 8],
    pub edition: String,
    pub motd: String,
    pub protocol: String,
    pub version: String,
    pub online: u32,
    pub max: u32,
    /// fields 6.. : id, level name, game mode, then extras
    pub id: Option<String>,
    pub level: Option<String>,
    pub mode: Option<u8>,
    pub extras: Vec<String>,
    pub trailing_semicolon: bool,
}

const BR_EXCL: &[char] = &[';'];

pub fn bedrock_status() -> impl Strategy<Value = BedrockStatus> {
    (
        any::<[u8; 8]>(),
        (prop::sample::select(vec!["MCPE", "MCEE"]), text(BR_EXCL, 40), "[0-9]{1,4}", text(BR_EXCL, 12), crate::util::num::<u32>(), crate::util::num::<u32>()),
        // how many optional fields: 0 => 6 fields, 1 => id, 2 => +level, 3 => +mode, 4.. => + extras
        (0usize..7, "[0-9]{1,19}", text(BR_EXCL, 20), 0u8..5, prop::collection::vec("[0-9]{1,5}", 3), any::<bool>()),
    )
        .prop_map(|(guid, (edition, motd, protocol, version, online, max), (n, id, level, mode, extras, trailing))| {
            BedrockStatus {
                guid,
                edition: edition.to_string(),
                motd,
                protocol,
                version,
                online,
                max,
                id: if n >= 1 { Some(id) } else { None },
                level: if n >= 2 { Some(level) } else { None },
                mode: if n >= 3 { Some(mode) } else { None },
                extras: if n >= 4 { extras[.. n - 3].to_vec() } else { vec![] },
                // a trailing ';' after fewer than 9 fields would add an empty optional field
                trailing_semicolon: trailing && n >= 3,
            }
        })
}

pub const BEDROCK_REQUEST: [u8; 33] = [
    0x01, 0x11, 0x22, 0x33, 0x44, 0x55, 0x66, 0x77, 0x88, 0x00, 0xff, 0xff, 0x00, 0xfe, 0xfe, 0xfe, 0xfe, 0xfd, 0xfd, 0xfd, 0xfd, 0x12, 0x34,
    0x56, 0x78, 0x00, 0x00, 0x00, 0x00, 0x00, 0x00, 0x00, 0x00,
];

const MODES: [&str; 5] = ["Survival", "Creative", "Hardcore", "Spectator", "Adventure"];

impl BedrockStatus {
    pub fn text(&self) -> String {
        let mut f = vec![
            self.edition.clone(),
            self.motd.clone(),
            self.protocol.clone(),
            self.version.clone(),
            self.online.to_string(),
            self.max.to_string(),
        ];
        if let Some(x) = &self.id {
            f.push(x.clone());
        }
        if let Some(x) = &self.level {
            f.push(x.clone());
        }
        if let Some(m) = self.mode {
            f.push(MODES[m as usize].to_string());
        }
        f.extend(self.extras.iter().cloned());
        let mut s = f.join(";");
        if self.trailing_semicolon {
            s.push(';');
        }
        s
    }

    pub fn datagram(&self) -> Vec<u8> {
        let t = self.text();
        let mut o = vec![0x1C];
        o.extend_from_slice(&BEDROCK_REQUEST[1 .. 9]);
        o.extend_from_slice(&self.guid);
        o.extend_from_slice(&BEDROCK_REQUEST[9 .. 25]);
        o.extend_from_slice(&(t.len() as u16).to_be_bytes());
        o.extend_from_slice(t.as_bytes());
        o
    }

    pub fn expected(&self) -> BedrockResponse {
        BedrockResponse {
            edition: self.edition.clone(),
            name: self.motd.clone(),
            version_name: self.version.clone(),
            protocol_version: self.protocol.clone(),
            players_maximum: self.max,
            players_online: self.online,
            id: self.id.clone(),
            map: self.level.clone(),
            game_mode: self.mode.map(|m| {
                match m {
                    0 => GameMode::Survival,
                    1 => GameMode::Creative,
                    2 => GameMode::Hardcore,
                    3 => GameMode::Spectator,
                    _ => GameMode::Adventure,
                }
            }),
            server_type: Server::Bedrock,
        }
    }
}

// ---------------------------------------------------------------------------------
// Legacy

#[derive(Debug, Clone, Serialize, Deserialize, PartialEq)]
pub struct LegacyStatus {
    pub protocol: i32,
    pub version: String,
    pub motd: String,
    pub online: u32,
    pub max: u32,
}

const LEG_EXCL: &[char] = &['§'];

pub fn legacy_status() -> impl Strategy<Value = LegacyStatus> {
    // one status in thirty has a description that takes the kick string to the neighbourhood of 32768 or 65535 UTF-16 units
    // (the length field is a u16 counting units, and it is doubled to get bytes)
    let pad = prop_oneof![29 => Just(0usize), 1 => prop_oneof![32_700usize .. 32_800, 65_400usize .. 65_536, 32_768usize .. 65_536]];
    (crate::util::num::<i32>(), text(ANY, 16), text(LEG_EXCL, 60), crate::util::num::<u32>(), crate::util::num::<u32>(), pad).prop_map(|(protocol, version, motd, online, max, pad)| {
        let mut motd = motd;
        if pad > 0 {
            // `pad` is the total length of the longer (1.6) kick string in units
            let overhead = format!("\u{a7}1\0{protocol}\0{version}\0\0{online}\0{max}").encode_utf16().count();
            let room = pad.saturating_sub(overhead);
            let mut units = motd.encode_utf16().count();
            while units > room {
                units -= motd.pop().map(|c| c.len_utf16()).unwrap_or(units);
            }
            motd.extend(std::iter::repeat('x').take(room - units));
        }
        LegacyStatus {
            protocol,
            version,
            motd,
            online,
            max,
        }
    })
}

pub const REQ_1_6: [u8; 19] = [
    0xfe, 0x01, 0xfa, 0x00, 0x07, 0x00, 0x47, 0x00, 0x61, 0x00, 0x6D, 0x00, 0x65, 0x00, 0x44, 0x00, 0x69, 0x00, 0x67,
];
pub const REQ_1_4: [u8; 2] = [0xFE, 0x01];
pub const REQ_B1_8: [u8; 1] = [0xFE];

fn kick(text: &str) -> Vec<u8> {
    let units: Vec<u16> = text.encode_utf16().collect();
    let mut o = vec![0xFF];
    o.extend_from_slice(&(units.len() as u16).to_be_bytes());
    for u in units {
        o.extend_from_slice(&u.to_be_bytes());
    }
    o
}

impl LegacyStatus {
    pub fn stream(&self, group: LegacyGroup) -> Vec<u8> {
        match group {
            LegacyGroup::V1_6 => {
                kick(&format!(
                    "§1\0{}\0{}\0{}\0{}\0{}",
                    self.protocol, self.version, self.motd, self.online, self.max
                ))
            }
            _ => kick(&format!("{}§{}§{}", self.motd, self.online, self.max)),
        }
    }

    pub fn expected(&self, group: LegacyGroup) -> JavaResponse {
        let (game_version, protocol_version) = match group {
            LegacyGroup::V1_6 => (self.version.clone(), self.protocol),
            LegacyGroup::V1_4 => ("1.4+".to_string(), -1),
            LegacyGroup::VB1_8 => ("Beta 1.8+".to_string(), -1),
        };
        JavaResponse {
            game_version,
            protocol_version,
            players_maximum: self.max,
            players_online: self.online,
            players: None,
            description: self.motd.clone(),
            favicon: None,
            previews_chat: None,
            enforces_secure_chat: None,
            server_type: Server::Legacy(group),
        }
    }
}

// ---------------------------------------------------------------------------------
// A server that speaks a subset of the variants

#[derive(Debug, Clone, Copy, PartialEq, Eq, Hash, Serialize, Deserialize)]
pub enum Variant {
    Java,
    Bedrock,
    L16,
    L14,
    LB18,
}

pub const ORDER: [Variant; 5] = [Variant::Java, Variant::Bedrock, Variant::L16, Variant::L14, Variant::LB18];

#[derive(Debug, Clone, Serialize, Deserialize, PartialEq)]
pub struct McServerSpec {
    /// bit i set = speaks ORDER[i]
    pub speaks: u8,
    pub java: JavaStatus,
    pub bedrock: BedrockStatus,
    pub legacy: LegacyStatus,
    /// a TCP request of a variant not spoken is answered by closing (true) or by silence (false)
    pub close_on_unknown: bool,
}

impl McServerSpec {
    pub fn speaks(&self, v: Variant) -> bool {
        let i = ORDER.iter().position(|x| *x == v).unwrap();
        self.speaks & (1 << i) != 0
    }
    pub fn any_tcp(&self) -> bool { self.speaks & 0b11101 != 0 }
}

pub fn classify_tcp_first_send(data: &[u8]) -> Option<Variant> {
    if data == REQ_1_6 {
        Some(Variant::L16)
    } else if data == REQ_1_4 {
        Some(Variant::L14)
    } else if data == REQ_B1_8 {
        Some(Variant::LB18)
    } else if parse_handshake(data).is_some() {
        Some(Variant::Java)
    } else {
        None
    }
}

pub struct McServer {
    pub spec: McServerSpec,
    /// requests seen, in order: (transport, variant recognised)
    pub seen: Vec<(Proto, Option<Variant>)>,
}

impl McServer {
    pub fn new(spec: McServerSpec) -> Self { Self { spec, seen: Vec::new() } }
}

impl Responder for McServer {
    fn on_open(&mut self, proto: Proto, _peer: &SocketAddr, out: &mut Outbox) {
        if proto == Proto::Tcp && !self.spec.any_tcp() {
            out.fail();
        }
    }

    fn on_send(&mut self, proto: Proto, _peer: &SocketAddr, nth: usize, data: &[u8], out: &mut Outbox) {
        match proto {
            Proto::Udp => {
                let is = data == BEDROCK_REQUEST;
                self.seen.push((proto, if is { Some(Variant::Bedrock) } else { None }));
                if is && self.spec.speaks(Variant::Bedrock) {
                    out.datagram(self.spec.bedrock.datagram());
                }
            }
            Proto::Tcp => {
                let restart = nth > 0 && classify_tcp_first_send(data).is_some() && data != [0x01, 0x00] && data != [0x01, 0x01];
                if nth == 0 || restart {
                    let v = classify_tcp_first_send(data);
                    self.seen.push((proto, v));
                    match v {
                        Some(Variant::Java) if self.spec.speaks(Variant::Java) => {
                            // answer once the status request arrives
                        }
                        Some(Variant::L16) if self.spec.speaks(Variant::L16) => {
                            out.stream(&self.spec.legacy.stream(LegacyGroup::V1_6));
                            out.close();
                        }
                        Some(Variant::L14) if self.spec.speaks(Variant::L14) => {
                            out.stream(&self.spec.legacy.stream(LegacyGroup::V1_4));
                            out.close();
                        }
                        Some(Variant::LB18) if self.spec.speaks(Variant::LB18) => {
                            out.stream(&self.spec.legacy.stream(LegacyGroup::VB1_8));
                            out.close();
                        }
                        _ => {
                            if self.spec.close_on_unknown {
                                out.close();
                            }
                        }
                    }
                } else if data == [0x01, 0x00] {
                    // status request after a Java handshake
                    if self.spec.speaks(Variant::Java) && matches!(self.seen.last(), Some((Proto::Tcp, Some(Variant::Java)))) && !out.conn.closed {
                        out.stream(&self.spec.java.stream());
                        out.close();
                    }
                }
            }
        }
    }
}
