//! Quake 1/2/3 status reply: reference encoder + expected response.

use gamedig::protocols::quake;
use proptest::prelude::*;
use serde::{Deserialize, Serialize};
use std::collections::HashMap;

use crate::util::{dedup_by_key, key, text};

#[derive(Debug, Clone, Serialize, Deserialize)]
pub struct QPlayer {
    pub id: u8,
    /// frags; Q1 uses it as u16, Q2/3 as i32
    pub frags: i32,
    pub time: u16,
    pub ping: u16,
    pub name: String,
    pub name_quoted: bool,
    pub skin: String,
    pub c1: u8,
    pub c2: u8,
    /// Q2/Q3 optional 4th field
    pub address: Option<String>,
}

#[derive(Debug, Clone, Serialize, Deserialize)]
pub struct QuakeState {
    /// 1, 2 or 3
    pub version: u8,
    /// (key, value) in wire order; contains the name/map/maxclients keys
    pub vars: Vec<(String, String)>,
    pub players: Vec<QPlayer>,
}

/// The largest status reply (Quake 3's MAX_MSGLEN; a datagram can carry it).
pub const MAX_REPLY: usize = 16_384;

const VAL_EXCL: &[char] = &['\\', '\n'];
const TOKEN_EXCL: &[char] = &['\\', '\n', ' ', '"'];

/// A token that may itself contain double quotes (at its ends or inside): only ONE wrapping pair is transport syntax.
fn quoteful(max: usize) -> impl Strategy<Value = String> {
    prop_oneof![
        5 => text(TOKEN_EXCL, max).boxed(),
        // names with spaces (the reason names are quoted at all); no quote characters inside, or the line would be ambiguous
        2 => prop::collection::vec(text(TOKEN_EXCL, max / 2), 2 .. 4).prop_map(|w| w.join(" ")).boxed(),
        1 => (text(TOKEN_EXCL, max), 0u8 .. 7).prop_map(|(t, how)| match how {
            0 => format!("\"{t}"),
            1 => format!("{t}\""),
            2 => format!("\"{t}\""),
            3 => format!("\"\"{t}"),
            4 => "\"".to_string(),
            5 => "\"\"".to_string(),
            _ => {
                let mid = t.chars().count() / 2;
                let mut o: String = t.chars().take(mid).collect();
                o.push('"');
                o.extend(t.chars().skip(mid));
                o
            }
        }).boxed(),
    ]
}

/// What a token denotes: exactly one pair of wrapping quotes is removed, if there is one.
pub fn unwrap_once(token: &str) -> String {
    if token.len() >= 2 && token.starts_with('"') && token.ends_with('"') {
        token[1 .. token.len() - 1].to_string()
    } else {
        token.to_string()
    }
}

fn player() -> impl Strategy<Value = QPlayer> {
    (
        crate::util::num::<u8>(),
        prop_oneof![crate::util::num::<i32>(), -5i32..200],
        crate::util::num::<u16>(),
        prop_oneof![crate::util::num::<u16>(), 0u16..300],
        quoteful(24),
        any::<bool>(),
        quoteful(10),
        crate::util::num::<u8>(),
        crate::util::num::<u8>(),
        prop::option::of("[0-9]{1,3}\\.[0-9]{1,3}\\.[0-9]{1,3}\\.[0-9]{1,3}:[0-9]{1,5}"),
    )
        .prop_map(|(id, frags, time, ping, name, q, skin, c1, c2, address)| {
            QPlayer {
                id,
                frags,
                time,
                ping,
                // an unquoted empty name would vanish from the line, a name with a space would fall apart, and an unquoted name that begins with a
                // quote it does not close would swallow the following fields: such names are always quoted
                name_quoted: q || name.is_empty() || name.contains(' ') || (name.starts_with('"') && !(name.len() >= 2 && name.ends_with('"'))),
                name,
                skin,
                c1,
                c2,
                address,
            }
        })
}

pub fn state() -> impl Strategy<Value = QuakeState> {
    (
        1u8 ..= 3,
        // spelling choices: 0 = primary, 1 = alternate, 2 = both
        (0u8 .. 3, 0u8 .. 3, 0u8 .. 3, 0u8 .. 4),
        (text(VAL_EXCL, 60), text(VAL_EXCL, 60), text(VAL_EXCL, 30), text(VAL_EXCL, 30)),
        (crate::util::num::<u8>(), crate::util::num::<u8>()),
        (text(VAL_EXCL, 30), text(VAL_EXCL, 30)),
        // (one state in sixteen carries enough variables to take the reply towards the 16 KiB a status message can have)
        prop_oneof![
            15 => prop::collection::vec((prop_oneof![6 => key(), 1 => crate::util::near(&["hostname", "sv_hostname", "mapname", "map", "maxclients", "sv_maxclients", "version"])], text(VAL_EXCL, 40)), 0 .. 12),
            1 => prop::collection::vec((key(), "[ -\\[\\]-~]{50,90}".prop_map(|s| s)), 60 .. 150),
        ],
        prop_oneof![3 => prop::collection::vec(player(), 0..4), 2 => prop::collection::vec(player(), 4..20), 1 => prop::collection::vec(player(), 20..65)],
        any::<prop::sample::Index>(),
    )
        .prop_map(|(version, sp, (host, host2, map, map2), (maxc, maxc2), (ver, ver2), extra, players, rot)| {
            let mut vars: Vec<(String, String)> = Vec::new();
            let reserved = [
                "hostname",
                "sv_hostname",
                "mapname",
                "map",
                "maxclients",
                "sv_maxclients",
                "version",
                "*version",
            ];
            for (k, v) in dedup_by_key(extra) {
                if !reserved.contains(&k.as_str()) {
                    vars.push((k, v));
                }
            }
            let mut named: Vec<(String, String)> = Vec::new();
            let mut put = |choice: u8, a: &str, b: &str, va: String, vb: String| {
                if choice == 0 || choice == 2 {
                    named.push((a.to_string(), va));
                }
                if choice == 1 || choice == 2 {
                    named.push((b.to_string(), vb));
                }
            };
            put(sp.0, "hostname", "sv_hostname", host, host2);
            put(sp.1, "mapname", "map", map, map2);
            put(sp.2, "maxclients", "sv_maxclients", maxc.to_string(), maxc2.to_string());
            if sp.3 < 3 {
                put(sp.3, "version", "*version", ver, ver2);
            }
            // interleave named keys at a rotating position
            let pos = rot.index(vars.len() + 1);
            for (i, kv) in named.into_iter().enumerate() {
                let at = (pos + i * 2).min(vars.len());
                vars.insert(at, kv);
            }
            let mut players = players;
            if version == 1 {
                for p in players.iter_mut() {
                    p.frags = (p.frags as u32 & 0xFFFF) as i32;
                }
            }
            QuakeState {
                version,
                vars,
                players,
            }
        })
}

pub fn request(version: u8) -> Vec<u8> {
    let word: &[u8] = if version == 3 { b"getstatus" } else { b"status" };
    [&[0xFF, 0xFF, 0xFF, 0xFF][..], word, &[0]].concat()
}

pub fn response_header(version: u8) -> &'static [u8] {
    match version {
        1 => b"n",
        2 => b"print\n",
        _ => b"statusResponse\n",
    }
}

fn quote(s: &str, q: bool) -> String {
    if q {
        format!("\"{s}\"")
    } else {
        s.to_string()
    }
}

impl QuakeState {
    pub fn encode(&self) -> Vec<u8> {
        let mut out = vec![0xFF, 0xFF, 0xFF, 0xFF];
        out.extend_from_slice(response_header(self.version));
        for (k, v) in &self.vars {
            out.push(b'\\');
            out.extend_from_slice(k.as_bytes());
            out.push(b'\\');
            out.extend_from_slice(v.as_bytes());
        }
        out.push(b'\n');
        for p in &self.players {
            let line = if self.version == 1 {
                format!(
                    "{} {} {} {} {} {} {} {}",
                    p.id,
                    p.frags,
                    p.time,
                    p.ping,
                    quote(&p.name, p.name_quoted),
                    quote(&p.skin, true),
                    p.c1,
                    p.c2
                )
            } else {
                match &p.address {
                    Some(a) => format!("{} {} {} {}", p.frags, p.ping, quote(&p.name, p.name_quoted), quote(a, true)),
                    None => format!("{} {} {}", p.frags, p.ping, quote(&p.name, p.name_quoted)),
                }
            };
            out.extend_from_slice(line.as_bytes());
            out.push(b'\n');
        }
        out
    }

    fn split_vars(&self) -> (String, String, u8, Option<String>, HashMap<String, String>) {
        let mut m: HashMap<String, String> = self.vars.iter().cloned().collect();
        let name = m.remove("hostname").or_else(|| m.remove("sv_hostname")).unwrap();
        let map = m.remove("mapname").or_else(|| m.remove("map")).unwrap();
        let max = m
            .remove("maxclients")
            .or_else(|| m.remove("sv_maxclients"))
            .unwrap()
            .parse()
            .unwrap();
        let ver = m.remove("version").or_else(|| m.remove("*version"));
        (name, map, max, ver, m)
    }

    pub fn expected_one(&self) -> quake::Response<quake::one::Player> {
        let (name, map, players_maximum, game_version, unused_entries) = self.split_vars();
        quake::Response {
            name,
            map,
            players: self
                .players
                .iter()
                .map(|p| {
                    quake::one::Player {
                        id: p.id,
                        score: p.frags as u16,
                        time: p.time,
                        ping: p.ping,
                        name: unwrap_once(&quote(&p.name, p.name_quoted)),
                        skin: unwrap_once(&quote(&p.skin, true)),
                        color_primary: p.c1,
                        color_secondary: p.c2,
                    }
                })
                .collect(),
            players_online: self.players.len() as u8,
            players_maximum,
            game_version,
            unused_entries,
        }
    }

    pub fn expected_two(&self) -> quake::Response<quake::two::Player> {
        let (name, map, players_maximum, game_version, unused_entries) = self.split_vars();
        quake::Response {
            name,
            map,
            players: self
                .players
                .iter()
                .map(|p| {
                    quake::two::Player {
                        score: p.frags,
                        ping: p.ping,
                        name: unwrap_once(&quote(&p.name, p.name_quoted)),
                        address: p.address.clone(),
                    }
                })
                .collect(),
            players_online: self.players.len() as u8,
            players_maximum,
            game_version,
            unused_entries,
        }
    }
}
