//! Unreal 2 query protocol: strings, server info, mutators/rules, players.

use gamedig::protocols::unreal2;
use gamedig::verif_hook::Proto;
use proptest::prelude::*;
use serde::{Deserialize, Serialize};
use std::collections::{HashMap, HashSet};
use std::net::SocketAddr;

use crate::wire::{Outbox, Responder};

#[derive(Debug, Clone, Serialize, Deserialize, PartialEq)]
pub enum Piece {
    /// visible character
    Ch(char),
    /// colour escape ESC r g b
    Color(u8, u8, u8),
    /// control code 1..=26 (never ESC)
    Ctrl(u8),
}

#[derive(Debug, Clone, Copy, Serialize, Deserialize, PartialEq)]
pub enum Enc {
    Latin1,
    Ucs2 { stray01: bool },
}

#[derive(Debug, Clone, Serialize, Deserialize, PartialEq)]
pub struct UStr {
    pub pieces: Vec<Piece>,
    pub enc: Enc,
    /// an empty string in its other wire form: Latin-1 `01 00` instead of `00`, UCS-2 a bare `80` instead of `81 00 00`
    #[serde(default)]
    pub alt_empty: bool,
}

impl UStr {
    pub fn plain(s: &str, enc: Enc) -> Self {
        UStr {
            pieces: s.chars().map(Piece::Ch).collect(),
            enc,
            alt_empty: false,
        }
    }

    /// What the client must return.
    pub fn text(&self) -> String {
        self.pieces
            .iter()
            .filter_map(|p| {
                match p {
                    Piece::Ch(c) => Some(*c),
                    _ => None,
                }
            })
            .collect()
    }

    fn units(&self) -> Vec<u16> {
        let mut v = Vec::new();
        for p in &self.pieces {
            match p {
                Piece::Ch(c) => v.push(*c as u32 as u16),
                Piece::Color(r, g, b) => v.extend_from_slice(&[0x1B, *r as u16, *g as u16, *b as u16]),
                Piece::Ctrl(c) => v.push(*c as u16),
            }
        }
        v
    }

    pub fn first_unit(&self) -> Option<u16> { self.units().first().copied() }

    pub fn has_escape(&self) -> bool { self.pieces.iter().any(|p| !matches!(p, Piece::Ch(_))) }

    /// Encode without knowing what follows: the bare `80` form of the empty UCS-2 string is not used.
    pub fn encode(&self, out: &mut Vec<u8>) { self.encode_before(out, Some(1)) }

    /// Encode in front of a field whose first wire byte is `next` (None: end of the datagram). A reader cannot tell a bare `80`
    /// followed by a byte 01 from the "stray 01" form, so the bare form is only used when `next` is not 01 (domain restriction).
    pub fn encode_before(&self, out: &mut Vec<u8>, next: Option<u8>) {
        let units = self.units();
        match self.enc {
            Enc::Latin1 => {
                if units.is_empty() {
                    out.push(if self.alt_empty { 1 } else { 0 });
                    if self.alt_empty {
                        out.push(0);
                    }
                    return;
                }
                out.push(units.len() as u8 + 1);
                for u in &units {
                    out.push(*u as u8);
                }
                out.push(0);
            }
            Enc::Ucs2 { stray01 } => {
                if units.is_empty() && self.alt_empty && !stray01 && next != Some(1) {
                    // zero code units: nothing follows the length byte
                    out.push(0x80);
                    return;
                }
                out.push(0x80 | (units.len() as u8 + 1));
                if stray01 {
                    out.push(1);
                }
                for u in &units {
                    out.extend_from_slice(&u.to_le_bytes());
                }
                out.extend_from_slice(&[0, 0]);
            }
        }
    }

    /// A UCS-2 string whose first byte is 01 cannot be told from the "stray 01" form by any reader:
    /// such strings are sent in the stray form (domain restriction, counted as an assumption).
    pub fn disambiguate(&mut self) {
        if let Enc::Ucs2 { stray01: false } = self.enc {
            if self.units().first().map(|u| u & 0xFF == 1).unwrap_or(false) {
                self.enc = Enc::Ucs2 { stray01: true };
            }
        }
    }

    /// The value of the length byte on the wire.
    pub fn length_byte(&self) -> u8 {
        let n = self.units().len() as u8;
        match self.enc {
            Enc::Latin1 => {
                if n == 0 && !self.alt_empty {
                    0
                } else {
                    n + 1
                }
            }
            Enc::Ucs2 { stray01 } => {
                if n == 0 && self.alt_empty && !stray01 {
                    0x80
                } else {
                    0x80 | (n + 1)
                }
            }
        }
    }
}

fn latin1_char() -> impl Strategy<Value = char> {
    prop_oneof![
        12 => (0x20u32..0x7F).prop_map(|c| char::from_u32(c).unwrap()),
        3 => (0xA0u32..0x100).prop_map(|c| char::from_u32(c).unwrap()),
    ]
}

fn ucs2_char() -> impl Strategy<Value = char> {
    prop_oneof![
        8 => (0x20u32..0x7F).prop_map(|c| char::from_u32(c).unwrap()),
        3 => (0xA0u32..0x800).prop_map(|c| char::from_u32(c).unwrap()),
        3 => (0x800u32..0xD800).prop_map(|c| char::from_u32(c).unwrap()),
        1 => (0xE000u32..0xFFFE).prop_map(|c| char::from_u32(c).unwrap()),
    ]
}

fn rgb() -> impl Strategy<Value = u8> { (1u8 ..= 255).prop_map(|b| if b == 0x1B { 0x1C } else { b }) }

fn piece(latin: bool) -> BoxedStrategy<Piece> {
    let c = if latin { latin1_char().boxed() } else { ucs2_char().boxed() };
    prop_oneof![
        20 => c.prop_map(Piece::Ch),
        2 => (rgb(), rgb(), rgb()).prop_map(|(r, g, b)| Piece::Color(r, g, b)),
        1 => (1u8..=26).prop_map(Piece::Ctrl),
    ]
    .boxed()
}

/// A string with at most `max` code units of content (max <= 126).
pub fn ustr(max: usize) -> impl Strategy<Value = UStr> {
    let max = max.min(126);
    (
        any::<bool>(),
        any::<bool>(),
        prop_oneof![2 => Just(0usize..1), 5 => Just(1usize..12), 4 => Just(12usize..40), 3 => Just(24usize..127)],
        any::<bool>(),
    )
        .prop_flat_map(move |(latin, stray01, range, alt)| {
            (prop::collection::vec(piece(latin), range), Just(latin), Just(stray01), Just(alt))
        })
        .prop_map(move |(mut pieces, latin, stray01, alt_empty)| {
            // trim to the unit budget
            let mut used = 0;
            let mut keep = 0;
            for p in &pieces {
                let w = if matches!(p, Piece::Color(..)) { 4 } else { 1 };
                if used + w > max {
                    break;
                }
                used += w;
                keep += 1;
            }
            pieces.truncate(keep);
            let mut u = UStr {
                pieces,
                enc: if latin { Enc::Latin1 } else { Enc::Ucs2 { stray01 } },
                alt_empty,
            };
            u.disambiguate();
            u
        })
}

#[derive(Debug, Clone, Serialize, Deserialize, PartialEq)]
pub struct U2Player {
    pub id: u32,
    pub name: UStr,
    pub ping: u32,
    pub score: i32,
    pub stats_id: u32,
}

#[derive(Debug, Clone, Serialize, Deserialize, PartialEq)]
pub struct U2State {
    pub header: [u8; 4],
    pub server_id: u32,
    pub ip: UStr,
    pub game_port: u32,
    pub query_port: u32,
    pub name: UStr,
    pub map: UStr,
    pub game_type: UStr,
    pub num_players: u32,
    pub max_players: u32,
    /// (key, value); key "Mutator" in any case marks a mutator
    pub rules: Vec<(UStr, UStr)>,
    pub players: Vec<U2Player>,
    /// wanted datagram counts (more are used when 1024 bytes would be exceeded)
    pub rule_datagrams: usize,
    pub player_datagrams: usize,
}

fn rule_key() -> impl Strategy<Value = UStr> {
    prop_oneof![
        3 => prop::sample::select(vec!["Mutator", "mutator", "MUTATOR"]).prop_map(|s| UStr::plain(s, Enc::Latin1)),
        1 => Just(UStr::plain("GamePassword", Enc::Latin1)),
        3 => prop::sample::select(vec!["ServerMode", "AdminName", "GameStats", "MinPlayers", "k"]).prop_map(|s| UStr::plain(s, Enc::Latin1)),
        4 => ustr(20),
        // (the format allows 127 code units per string: the long ones live in the lists, whose datagrams the model fits to 1024 bytes)
        1 => ustr(126),
        // keys that only resemble the special ones (MutatorCount, xMutator, GamePasswords, gamepassword ...)
        2 => crate::util::near(&["Mutator", "GamePassword"]).prop_map(|s| UStr::plain(&s, Enc::Latin1)),
    ]
}

fn rule_value() -> impl Strategy<Value = UStr> {
    prop_oneof![
        1 => prop::sample::select(vec!["True", "False", "true"]).prop_map(|s| UStr::plain(s, Enc::Latin1)),
        5 => ustr(60),
        1 => ustr(126),
    ]
}

fn u2player() -> impl Strategy<Value = U2Player> {
    (crate::util::num::<u32>(), prop_oneof![6 => ustr(30).boxed(), 1 => ustr(126).boxed()], prop_oneof![2 => Just(0u32), 5 => 1u32..500, 1 => crate::util::num::<u32>()], prop_oneof![crate::util::num::<i32>(), -10i32..200], crate::util::num::<u32>()).prop_map(
        |(id, name, ping, score, stats_id)| {
            U2Player {
                id,
                name,
                ping,
                score,
                stats_id,
            }
        },
    )
}

pub fn u2_state() -> impl Strategy<Value = U2State> {
    (
        (any::<[u8; 4]>(), crate::util::num::<u32>(), ustr(20), crate::util::num::<u32>(), crate::util::num::<u32>()),
        (ustr(126), ustr(60), ustr(40), crate::util::num::<u32>()),
        prop::collection::vec((rule_key(), rule_value()), 0..24),
        prop_oneof![3 => prop::collection::vec(u2player(), 0..4), 2 => prop::collection::vec(u2player(), 4..20), 1 => prop::collection::vec(u2player(), 20..65)],
        (1usize..7, 1usize..7, 0u32..3, crate::util::num::<u32>()),
    )
        .prop_map(|((header, server_id, ip, game_port, query_port), (name, map, game_type, max_players), rules, players, (rd, pd, np_mode, np_big))| {
            // the protocol has no sequence numbers: two byte-identical datagrams of one list cannot be told from one
            // datagram delivered twice, so exact duplicates of a (key, value) pair are outside the domain
            let mut rules = rules;
            // (compared without the empty-string wire form, which does not always change the bytes)
            let mut seen: Vec<(UStr, UStr)> = Vec::new();
            rules.retain(|kv| {
                let mut norm = kv.clone();
                norm.0.alt_empty = false;
                norm.1.alt_empty = false;
                if seen.contains(&norm) {
                    false
                } else {
                    seen.push(norm);
                    true
                }
            });
            let n = players.len() as u32;
            let player_datagrams = pd;
            // num_players: exact, or larger than what is listed (the client then waits for silence)
            let num_players = match np_mode {
                0 => n,
                1 => n + 1 + np_big % 5,
                _ => n.max(np_big),
            };
            U2State {
                header,
                server_id,
                ip,
                game_port,
                query_port,
                name,
                map,
                game_type,
                num_players,
                max_players,
                rules,
                players,
                rule_datagrams: rd,
                player_datagrams,
            }
        })
}

fn chunked(header: &[u8; 4], kind: u8, items: Vec<Vec<u8>>, wanted: usize) -> Vec<Vec<u8>> {
    let total: usize = items.iter().map(|i| i.len()).sum();
    let target = (total / wanted.max(1)).max(1).min(1000);
    let mut out: Vec<Vec<u8>> = Vec::new();
    let new = |out: &mut Vec<Vec<u8>>| {
        let mut d = header.to_vec();
        d.push(kind);
        out.push(d);
    };
    new(&mut out);
    for it in items {
        let cur = out.last().unwrap();
        if cur.len() > 5 && (cur.len() - 5 + it.len() > target || cur.len() + it.len() > 1024) {
            new(&mut out);
        }
        out.last_mut().unwrap().extend_from_slice(&it);
    }
    out
}

impl U2State {
    pub fn info_datagram(&self) -> Vec<u8> {
        let mut o = self.header.to_vec();
        o.push(0);
        o.extend_from_slice(&self.server_id.to_le_bytes());
        self.ip.encode_before(&mut o, Some(self.game_port as u8));
        o.extend_from_slice(&self.game_port.to_le_bytes());
        o.extend_from_slice(&self.query_port.to_le_bytes());
        self.name.encode_before(&mut o, Some(self.map.length_byte()));
        self.map.encode_before(&mut o, Some(self.game_type.length_byte()));
        self.game_type.encode_before(&mut o, Some(self.num_players as u8));
        o.extend_from_slice(&self.num_players.to_le_bytes());
        o.extend_from_slice(&self.max_players.to_le_bytes());
        o
    }

    pub fn rule_datagrams(&self) -> Vec<Vec<u8>> {
        let items = self
            .rules
            .iter()
            .enumerate()
            .map(|(i, (k, v))| {
                let mut o = Vec::new();
                k.encode_before(&mut o, Some(v.length_byte()));
                // (the next pair may or may not share the datagram: its key's first byte is taken as what follows)
                v.encode_before(&mut o, self.rules.get(i + 1).map(|(k2, _)| k2.length_byte()));
                o
            })
            .collect();
        chunked(&self.header, 1, items, self.rule_datagrams)
    }

    pub fn player_datagrams(&self) -> Vec<Vec<u8>> {
        let items = self
            .players
            .iter()
            .map(|p| {
                let mut o = p.id.to_le_bytes().to_vec();
                p.name.encode_before(&mut o, Some(p.ping as u8));
                o.extend_from_slice(&p.ping.to_le_bytes());
                o.extend_from_slice(&p.score.to_le_bytes());
                o.extend_from_slice(&p.stats_id.to_le_bytes());
                o
            })
            .collect();
        chunked(&self.header, 2, items, self.player_datagrams)
    }

    pub fn expected(&self) -> unreal2::Response {
        let mut mutators = HashSet::new();
        let mut rules: HashMap<String, Vec<String>> = HashMap::new();
        for (k, v) in &self.rules {
            let k = k.text();
            if k.eq_ignore_ascii_case("mutator") {
                mutators.insert(v.text());
            } else {
                rules.entry(k).or_default().push(v.text());
            }
        }
        let password = rules
            .get("GamePassword")
            .map(|v| v.concat().to_lowercase() == "true")
            .unwrap_or(false);
        let mut players = Vec::new();
        let mut bots = Vec::new();
        for p in &self.players {
            let q = unreal2::Player {
                id: p.id,
                name: p.name.text(),
                ping: p.ping,
                score: p.score,
                stats_id: p.stats_id,
            };
            if p.ping == 0 {
                bots.push(q);
            } else {
                players.push(q);
            }
        }
        unreal2::Response {
            server_info: unreal2::ServerInfo {
                server_id: self.server_id,
                ip: self.ip.text(),
                game_port: self.game_port,
                query_port: self.query_port,
                name: self.name.text(),
                map: self.map.text(),
                game_type: self.game_type.text(),
                num_players: self.num_players,
                max_players: self.max_players,
                password,
            },
            mutators_and_rules: unreal2::MutatorsAndRules { mutators, rules },
            players: unreal2::Players { players, bots },
        }
    }

    pub fn all_strings(&self) -> Vec<&UStr> {
        let mut v = vec![&self.ip, &self.name, &self.map, &self.game_type];
        for (k, x) in &self.rules {
            v.push(k);
            v.push(x);
        }
        for p in &self.players {
            v.push(&p.name);
        }
        v
    }
}

pub fn request(kind: u8) -> [u8; 5] { [0x79, 0, 0, 0, kind] }

/// Per-section behaviour of the scripted Unreal 2 server.
#[derive(Debug, Clone, Copy, PartialEq, Eq, Hash, Serialize, Deserialize)]
pub enum U2Behave {
    Valid,
    Silent,
    Malformed,
    SendFails,
}

pub struct U2Server {
    pub info: Vec<u8>,
    pub rules: Vec<Vec<u8>>,
    pub players: Vec<Vec<u8>>,
    /// per-attempt behaviours for each kind (beyond the end: Valid)
    pub attempts: [Vec<U2Behave>; 3],
    pub seen: [usize; 3],
    pub unknown: usize,
}

impl U2Server {
    pub fn from_state(st: &U2State) -> Self {
        Self {
            info: st.info_datagram(),
            rules: st.rule_datagrams(),
            players: st.player_datagrams(),
            attempts: [vec![], vec![], vec![]],
            seen: [0; 3],
            unknown: 0,
        }
    }
}

pub fn malformed(kind: u8) -> Vec<u8> {
    match kind {
        // wrong kind in the header -> PacketBad
        0 => vec![0x80, 0, 0, 0, 0x07, 1, 2, 3],
        1 => vec![0x80, 0, 0, 0, 0x09],
        _ => vec![0x80, 0, 0, 0, 0x02, 1, 0, 0, 0, 0x85, 0x41],
    }
}

impl Responder for U2Server {
    fn on_send(&mut self, proto: Proto, _peer: &SocketAddr, _nth: usize, data: &[u8], out: &mut Outbox) {
        if proto != Proto::Udp || data.len() != 5 || data[.. 4] != [0x79, 0, 0, 0] || data[4] > 2 {
            self.unknown += 1;
            return;
        }
        let k = data[4] as usize;
        let b = self.attempts[k].get(self.seen[k]).copied().unwrap_or(U2Behave::Valid);
        self.seen[k] += 1;
        match b {
            U2Behave::Silent => {}
            U2Behave::SendFails => out.fail(),
            U2Behave::Malformed => out.datagram(malformed(k as u8)),
            U2Behave::Valid => {
                match k {
                    0 => out.datagram(self.info.clone()),
                    1 => {
                        for d in &self.rules {
                            out.datagram(d.clone());
                        }
                    }
                    _ => {
                        for d in &self.players {
                            out.datagram(d.clone());
                        }
                    }
                }
            }
        }
    }
}
