//! One server state per protocol family, with its responder and the exact request sequence a
//! conforming client sends to it (the request grammar of C09, reused by C10/C14).

use gamedig::verif_hook::Proto;
use proptest::prelude::*;
use serde::{Deserialize, Serialize};

use crate::entries::Family;
use crate::models::gamespy::*;
use crate::models::minecraft::*;
use crate::models::misc::*;
use crate::models::quake as mq;
use crate::models::unreal2::{self as mu, u2_state, U2Server, U2State};
use crate::models::valve::{state_for, A2sState, Framing, ValveServer, INFO_REQ};
use crate::props::c02::{fit, set_appid};
use crate::wire::Responder;

#[derive(Debug, Clone, Serialize, Deserialize)]
pub enum FamState {
    Valve(A2sState),
    Gs1(Gs1State),
    Gs2(Gs2State),
    Gs3(Gs3State),
    Quake(mq::QuakeState),
    Unreal2(U2State),
    Mc(McServerSpec),
    Ffow(FfowState),
    Savage2(Savage2State),
    Jc2m(Jc2mState),
    Mindustry(MindustryState),
}

/// A request the client is expected to send: transport, bytes (None = Java handshake, checked field-wise).
#[derive(Debug, Clone, PartialEq)]
pub struct Expect {
    pub proto: Proto,
    /// index of the connection (in open order) the request goes to
    pub conn: usize,
    pub bytes: Option<Vec<u8>>,
}

pub fn fam_state(family: Family) -> BoxedStrategy<FamState> {
    match family {
        Family::Valve(engine) => {
            state_for(engine)
                .prop_map(move |mut st| {
                    if let Some((id, _)) = engine.expected_ids() {
                        set_appid(&mut st, id);
                    }
                    st.players.truncate(16);
                    st.rules.truncate(16);
                    for s in [&mut st.t_info, &mut st.t_players, &mut st.t_rules] {
                        if let Framing::Split { compressed, .. } = &mut s.framing {
                            *compressed = false;
                        }
                    }
                    fit(&mut st);
                    FamState::Valve(st)
                })
                .boxed()
        }
        Family::Gs1 => gs1_state().prop_map(FamState::Gs1).boxed(),
        Family::Gs2 => gs2_state().prop_map(FamState::Gs2).boxed(),
        Family::Gs3 => gs3_state().prop_map(FamState::Gs3).boxed(),
        Family::Quake(v) => {
            mq::state()
                .prop_map(move |mut st| {
                    st.version = v;
                    st.players.truncate(12);
                    if v == 1 {
                        for p in st.players.iter_mut() {
                            p.frags = (p.frags as u32 & 0xFFFF) as i32;
                        }
                    }
                    // the reply is one datagram
                    while st.encode().len() > mq::MAX_REPLY {
                        if st.players.pop().is_none() {
                            let keep: Vec<(String, String)> = st
                                .vars
                                .iter()
                                .filter(|(k, _)| ["hostname", "sv_hostname", "mapname", "map", "maxclients", "sv_maxclients"].contains(&k.as_str()))
                                .map(|(k, v)| (k.clone(), v.chars().take(20).collect()))
                                .collect();
                            st.vars = keep;
                            break;
                        }
                    }
                    FamState::Quake(st)
                })
                .boxed()
        }
        Family::Unreal2 => u2_state().prop_map(FamState::Unreal2).boxed(),
        Family::McAuto | Family::McJava | Family::McBedrock | Family::McLegacy(_) | Family::McLegacyAuto => {
            let speaks: BoxedStrategy<u8> = match family {
                Family::McJava => Just(0b00001u8).boxed(),
                Family::McBedrock => Just(0b00010u8).boxed(),
                Family::McLegacy(g) => Just(0b00100u8 << g).boxed(),
                Family::McLegacyAuto => (1u8 .. 8).prop_map(|b| b << 2).boxed(),
                _ => (1u8 .. 32).boxed(),
            };
            (speaks, java_status(), bedrock_status(), legacy_status(), any::<bool>())
                .prop_map(|(speaks, java, bedrock, legacy, close_on_unknown)| {
                    FamState::Mc(McServerSpec {
                        speaks,
                        java,
                        bedrock,
                        legacy,
                        close_on_unknown,
                    })
                })
                .boxed()
        }
        Family::Ffow => ffow_state().prop_map(FamState::Ffow).boxed(),
        Family::Savage2 => savage2_state().prop_map(FamState::Savage2).boxed(),
        Family::Jc2m => jc2m_state().prop_map(FamState::Jc2m).boxed(),
        Family::Mindustry => mindustry_state().prop_map(FamState::Mindustry).boxed(),
        Family::Master | Family::Http => Just(FamState::Savage2(Savage2State {
            header: [0; 12],
            name: String::new(),
            online: 0,
            max: 0,
            time: String::new(),
            map: String::new(),
            next_map: String::new(),
            location: String::new(),
            min: 0,
            mode: String::new(),
            version: String::new(),
            level: 0,
        }))
        .boxed(),
    }
}

/// Which sections a Valve / Unreal 2 query asks for (0 skip, 1 try, 2 enforce).
#[derive(Debug, Clone, Copy, PartialEq, Eq, Serialize, Deserialize)]
pub struct Gather {
    pub players: u8,
    pub rules: u8,
}

impl FamState {
    pub fn responder(&self) -> Box<dyn Responder> {
        match self {
            FamState::Valve(st) => Box::new(ValveServer::from_state(st).expect("uncompressed")),
            FamState::Gs1(st) => {
                Box::new(DatagramServer {
                    request: GS1_REQUEST.to_vec(),
                    reply: st.encode(),
                })
            }
            FamState::Gs2(st) => {
                Box::new(DatagramServer {
                    request: GS2_REQUEST.to_vec(),
                    reply: vec![st.encode()],
                })
            }
            FamState::Gs3(st) => Box::new(Gs3Server::new(st.challenge, [0xFF, 0xFF, 0xFF, 0x01], st.datagrams())),
            FamState::Quake(st) => {
                Box::new(DatagramServer {
                    request: mq::request(st.version),
                    reply: vec![st.encode()],
                })
            }
            FamState::Unreal2(st) => Box::new(U2Server::from_state(st)),
            FamState::Mc(spec) => Box::new(McServer::new(spec.clone())),
            FamState::Ffow(st) => Box::new(FfowServer::new(st.clone())),
            FamState::Savage2(st) => {
                Box::new(DatagramServer {
                    request: vec![0x01],
                    reply: vec![st.datagram()],
                })
            }
            FamState::Jc2m(st) => Box::new(Gs3Server::new(st.challenge, [0xFF, 0xFF, 0xFF, 0x02], vec![st.datagram()])),
            FamState::Mindustry(st) => {
                Box::new(DatagramServer {
                    request: MINDUSTRY_REQUEST.to_vec(),
                    reply: vec![st.datagram()],
                })
            }
        }
    }

    /// The exact sequence of requests a conforming client sends to this (valid, answering) server.
    /// `bad_game`: the app-id check fails, so only the info exchange happens.
    pub fn expected_requests(&self, family: Family, gather: Gather, bad_game: bool) -> Vec<Expect> {
        let udp = |b: Vec<u8>| {
            Expect {
                proto: Proto::Udp,
                conn: 0,
                bytes: Some(b),
            }
        };
        match self {
            FamState::Valve(st) => {
                let mut v = Vec::new();
                v.push(udp(INFO_REQ.to_vec()));
                for c in &st.t_info.challenges {
                    v.push(udp([INFO_REQ, &c[..]].concat()));
                }
                if !bad_game {
                    for (kind, sec, tog) in [(0x55u8, &st.t_players, gather.players), (0x56u8, &st.t_rules, gather.rules)] {
                        if tog == 0 {
                            continue;
                        }
                        v.push(udp(vec![0xFF, 0xFF, 0xFF, 0xFF, kind, 0xFF, 0xFF, 0xFF, 0xFF]));
                        for c in &sec.challenges {
                            v.push(udp([&[0xFF, 0xFF, 0xFF, 0xFF, kind][..], &c[..]].concat()));
                        }
                    }
                }
                v
            }
            FamState::Gs1(_) => vec![udp(GS1_REQUEST.to_vec())],
            FamState::Gs2(_) => vec![udp(GS2_REQUEST.to_vec())],
            FamState::Gs3(st) => vec![udp(GS3_HANDSHAKE.to_vec()), udp(gs3_data_request(st.challenge, [0xFF, 0xFF, 0xFF, 0x01]))],
            FamState::Jc2m(st) => vec![udp(GS3_HANDSHAKE.to_vec()), udp(gs3_data_request(st.challenge, [0xFF, 0xFF, 0xFF, 0x02]))],
            FamState::Quake(st) => vec![udp(mq::request(st.version))],
            FamState::Unreal2(_) => {
                let mut v = vec![udp(mu::request(0).to_vec())];
                if gather.rules != 0 {
                    v.push(udp(mu::request(1).to_vec()));
                }
                if gather.players != 0 {
                    v.push(udp(mu::request(2).to_vec()));
                }
                v
            }
            FamState::Ffow(st) => {
                let mut v = vec![udp(FFOW_REQUEST.to_vec())];
                for c in &st.challenges {
                    v.push(udp([&[0xFF, 0xFF, 0xFF, 0xFF, 0x46][..], &c[..]].concat()));
                }
                v
            }
            FamState::Savage2(_) => vec![udp(vec![0x01])],
            FamState::Mindustry(_) => vec![udp(MINDUSTRY_REQUEST.to_vec())],
            FamState::Mc(spec) => {
                let order: Vec<Variant> = match family {
                    Family::McJava => vec![Variant::Java],
                    Family::McBedrock => vec![Variant::Bedrock],
                    Family::McLegacy(g) => vec![[Variant::L16, Variant::L14, Variant::LB18][g as usize]],
                    Family::McLegacyAuto => ORDER[2 ..].to_vec(),
                    _ => ORDER.to_vec(),
                };
                let mut v = Vec::new();
                let mut conn = 0;
                for var in order {
                    let tcp_ok = spec.any_tcp();
                    match var {
                        Variant::Bedrock => {
                            v.push(Expect {
                                proto: Proto::Udp,
                                conn,
                                bytes: Some(BEDROCK_REQUEST.to_vec()),
                            })
                        }
                        Variant::Java => {
                            if tcp_ok {
                                v.push(Expect {
                                    proto: Proto::Tcp,
                                    conn,
                                    bytes: None,
                                });
                                v.push(Expect {
                                    proto: Proto::Tcp,
                                    conn,
                                    bytes: Some(vec![1, 0]),
                                });
                                v.push(Expect {
                                    proto: Proto::Tcp,
                                    conn,
                                    bytes: Some(vec![1, 1]),
                                });
                            }
                        }
                        other => {
                            if tcp_ok {
                                let b = match other {
                                    Variant::L16 => REQ_1_6.to_vec(),
                                    Variant::L14 => REQ_1_4.to_vec(),
                                    _ => REQ_B1_8.to_vec(),
                                };
                                v.push(Expect {
                                    proto: Proto::Tcp,
                                    conn,
                                    bytes: Some(b),
                                });
                            }
                        }
                    }
                    conn += 1;
                    if spec.speaks(var) {
                        break;
                    }
                }
                v
            }
        }
    }
}
