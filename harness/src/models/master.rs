//! Valve master server: reply pages and a reference parser for the request.

use gamedig::verif_hook::Proto;
use serde::{Deserialize, Serialize};
use std::net::{Ipv4Addr, SocketAddr};

use crate::wire::{Outbox, Responder};

#[derive(Debug, Clone, Serialize, Deserialize, PartialEq)]
pub struct Pages {
    /// entries per page; the terminator 0.0.0.0:0 is appended to the last page on the wire
    pub pages: Vec<Vec<([u8; 4], u16)>>,
}

pub fn encode_page(entries: &[([u8; 4], u16)], terminator: bool) -> Vec<u8> {
    let mut o = vec![0xFF, 0xFF, 0xFF, 0xFF, 0x66, 0x0A];
    for (ip, port) in entries {
        o.extend_from_slice(ip);
        o.extend_from_slice(&port.to_be_bytes());
    }
    if terminator {
        o.extend_from_slice(&[0; 6]);
    }
    o
}

impl Pages {
    pub fn datagrams(&self) -> Vec<Vec<u8>> {
        let n = self.pages.len();
        self.pages
            .iter()
            .enumerate()
            .map(|(i, p)| encode_page(p, i + 1 == n))
            .collect()
    }
    pub fn all(&self) -> Vec<(std::net::IpAddr, u16)> {
        self.pages
            .iter()
            .flatten()
            .map(|(ip, port)| (std::net::IpAddr::V4(Ipv4Addr::new(ip[0], ip[1], ip[2], ip[3])), *port))
            .collect()
    }
}

/// A parsed master-server request.
#[derive(Debug, Clone, PartialEq)]
pub struct Request {
    pub region: u8,
    pub seed: String,
    /// plain conditions
    pub plain: Vec<(String, String)>,
    pub nor: Vec<(String, String)>,
    pub nand: Vec<(String, String)>,
}

/// Reference grammar: `31 region "ip:port" 00 filter 00`, filter = (\key\value)* where the special keys
/// `nor` / `nand` carry a count N and group the following N conditions.
pub fn parse_request(data: &[u8]) -> Result<Request, String> {
    if data.len() < 3 || data[0] != 0x31 {
        return Err("does not start with 0x31".into());
    }
    let region = data[1];
    let rest = &data[2 ..];
    let z = rest.iter().position(|b| *b == 0).ok_or("seed address not NUL-terminated")?;
    let seed = String::from_utf8(rest[.. z].to_vec()).map_err(|_| "seed not UTF-8")?;
    let rest = &rest[z + 1 ..];
    if rest.last() != Some(&0) {
        return Err("filter not NUL-terminated".into());
    }
    let filter = &rest[.. rest.len() - 1];
    if filter.contains(&0) {
        return Err("NUL inside the filter".into());
    }
    let text = String::from_utf8(filter.to_vec()).map_err(|_| "filter not UTF-8")?;
    let mut req = Request {
        region,
        seed,
        plain: vec![],
        nor: vec![],
        nand: vec![],
    };
    if text.is_empty() {
        return Ok(req);
    }
    if !text.starts_with('\\') {
        return Err(format!("filter does not start with a backslash: {text:?}"));
    }
    let parts: Vec<&str> = text[1 ..].split('\\').collect();
    if parts.len() % 2 != 0 {
        return Err(format!("odd number of filter tokens: {text:?}"));
    }
    let mut i = 0;
    // 0 = plain, 1 = nor, 2 = nand, with remaining count
    let mut group: (u8, usize) = (0, 0);
    while i < parts.len() {
        let (k, v) = (parts[i], parts[i + 1]);
        i += 2;
        if k.is_empty() {
            return Err(format!("empty filter key: {text:?}"));
        }
        if k == "nor" || k == "nand" {
            if group.1 != 0 {
                return Err("nested / unfinished group".into());
            }
            let n: usize = v.parse().map_err(|_| format!("group count not a number: {v:?}"))?;
            if n == 0 {
                return Err("empty group".into());
            }
            group = (if k == "nor" { 1 } else { 2 }, n);
            continue;
        }
        let cond = (k.to_string(), v.to_string());
        if group.1 > 0 {
            if group.0 == 1 {
                req.nor.push(cond);
            } else {
                req.nand.push(cond);
            }
            group.1 -= 1;
        } else {
            req.plain.push(cond);
        }
    }
    if group.1 != 0 {
        return Err("group count larger than the conditions that follow".into());
    }
    Ok(req)
}

pub struct MasterServer {
    pub datagrams: Vec<Vec<u8>>,
    pub next: usize,
    pub requests: std::rc::Rc<std::cell::RefCell<Vec<Vec<u8>>>>,
}

impl Responder for MasterServer {
    fn on_send(&mut self, proto: Proto, _peer: &SocketAddr, _nth: usize, data: &[u8], out: &mut Outbox) {
        if proto != Proto::Udp {
            return;
        }
        self.requests.borrow_mut().push(data.to_vec());
        if let Some(d) = self.datagrams.get(self.next) {
            out.datagram(d.clone());
            self.next += 1;
        }
    }
}
