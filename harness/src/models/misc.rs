//! Single-game protocols: FFOW, Savage 2, JC2-MP, Mindustry (+ Eco JSON and its loopback HTTP server).

use gamedig::games::{ffow, jc2m, mindustry, savage2};
use gamedig::protocols::valve::{Environment, Server};
use gamedig::verif_hook::Proto;
use proptest::prelude::*;
use serde::{Deserialize, Serialize};
use std::net::SocketAddr;

use crate::util::{dedup_by_key, text};
use crate::wire::{Outbox, Responder};

const ANY: &[char] = &[];

fn z(out: &mut Vec<u8>, s: &str) {
    out.extend_from_slice(s.as_bytes());
    out.push(0);
}

// ---------------------------------------------------------------------------------
// Frontlines: Fuel of War

#[derive(Debug, Clone, Serialize, Deserialize, PartialEq)]
pub struct FfowState {
    pub protocol: u8,
    pub name: String,
    pub map: String,
    pub active_mod: String,
    pub mode: String,
    pub description: String,
    pub version: String,
    pub skipped: [u8; 2],
    pub players: u8,
    pub max: u8,
    pub server_type: u8,
    pub environment: u8,
    pub password: u8,
    pub vac: u8,
    pub fps: u8,
    pub round: u8,
    pub rounds_max: u8,
    pub time_left: u16,
    pub challenges: Vec<[u8; 4]>,
    pub kind: u8,
}

pub fn ffow_state() -> impl Strategy<Value = FfowState> {
    (
        (crate::util::num::<u8>(), text(ANY, 60), text(ANY, 30), text(ANY, 20), text(ANY, 20), text(ANY, 80), text(ANY, 16)),
        (any::<[u8; 2]>(), crate::util::num::<u8>(), crate::util::num::<u8>()),
        (
            prop::sample::select(vec![b'd', b'l', b'p', b'D', b'L', b'P']),
            prop::sample::select(vec![b'l', b'w', b'm', b'o', b'L', b'W']),
            0u8 ..= 1,
            0u8 ..= 1,
        ),
        (crate::util::num::<u8>(), crate::util::num::<u8>(), crate::util::num::<u8>(), crate::util::num::<u16>()),
        prop::collection::vec(any::<[u8; 4]>(), 0..3),
        prop::sample::select(vec![0x49u8, 0x46, 0x00, 0x6D]),
    )
        .prop_map(
            |((protocol, name, map, active_mod, mode, description, version), (skipped, players, max), (server_type, environment, password, vac), (fps, round, rounds_max, time_left), challenges, kind)| {
                FfowState {
                    protocol,
                    name,
                    map,
                    active_mod,
                    mode,
                    description,
                    version,
                    skipped,
                    players,
                    max,
                    server_type,
                    environment,
                    password,
                    vac,
                    fps,
                    round,
                    rounds_max,
                    time_left,
                    challenges,
                    kind,
                }
            },
        )
}

pub const FFOW_REQUEST: &[u8] = b"\xFF\xFF\xFF\xFF\x46LSQ";

impl FfowState {
    pub fn datagram(&self) -> Vec<u8> {
        let mut o = vec![0xFF, 0xFF, 0xFF, 0xFF, self.kind, self.protocol];
        z(&mut o, &self.name);
        z(&mut o, &self.map);
        z(&mut o, &self.active_mod);
        z(&mut o, &self.mode);
        z(&mut o, &self.description);
        z(&mut o, &self.version);
        o.extend_from_slice(&self.skipped);
        o.extend_from_slice(&[self.players, self.max, self.server_type, self.environment, self.password, self.vac, self.fps, self.round, self.rounds_max]);
        o.extend_from_slice(&self.time_left.to_le_bytes());
        o
    }

    pub fn expected(&self) -> ffow::Response {
        ffow::Response {
            protocol_version: self.protocol,
            name: self.name.clone(),
            active_mod: self.active_mod.clone(),
            game_mode: self.mode.clone(),
            game_version: self.version.clone(),
            description: self.description.clone(),
            map: self.map.clone(),
            players_online: self.players,
            players_maximum: self.max,
            server_type: match self.server_type.to_ascii_lowercase() {
                b'd' => Server::Dedicated,
                b'l' => Server::NonDedicated,
                _ => Server::TV,
            },
            environment_type: match self.environment.to_ascii_lowercase() {
                b'l' => Environment::Linux,
                b'w' => Environment::Windows,
                _ => Environment::Mac,
            },
            has_password: self.password == 1,
            vac_secured: self.vac == 1,
            round: self.round,
            rounds_maximum: self.rounds_max,
            time_left: self.time_left,
        }
    }
}

pub struct FfowServer {
    pub st: FfowState,
    issued: usize,
    pub bad: usize,
}

impl FfowServer {
    pub fn new(st: FfowState) -> Self { Self { st, issued: 0, bad: 0 } }
}

impl Responder for FfowServer {
    fn on_send(&mut self, proto: Proto, _peer: &SocketAddr, _nth: usize, data: &[u8], out: &mut Outbox) {
        if proto != Proto::Udp {
            return;
        }
        let fresh = data == FFOW_REQUEST;
        let follow = self.issued > 0 && data.len() == 9 && data[.. 5] == [0xFF, 0xFF, 0xFF, 0xFF, 0x46] && data[5 ..] == self.st.challenges[self.issued - 1];
        if !fresh && !follow {
            self.bad += 1;
            return;
        }
        if fresh && !follow {
            self.issued = 0;
        }
        if self.issued < self.st.challenges.len() {
            let c = self.st.challenges[self.issued];
            self.issued += 1;
            out.datagram([&[0xFF, 0xFF, 0xFF, 0xFF, 0x41][..], &c[..]].concat());
            return;
        }
        out.datagram(self.st.datagram());
        self.issued = 0;
    }
}

// ---------------------------------------------------------------------------------
// Savage 2

#[derive(Debug, Clone, Serialize, Deserialize, PartialEq)]
pub struct Savage2State {
    pub header: [u8; 12],
    pub name: String,
    pub online: u8,
    pub max: u8,
    pub time: String,
    pub map: String,
    pub next_map: String,
    pub location: String,
    pub min: u8,
    pub mode: String,
    pub version: String,
    pub level: u8,
}

pub fn savage2_state() -> impl Strategy<Value = Savage2State> {
    (
        any::<[u8; 12]>(),
        (text(ANY, 60), crate::util::num::<u8>(), crate::util::num::<u8>(), text(ANY, 12), text(ANY, 24), text(ANY, 24), text(ANY, 16)),
        (crate::util::num::<u8>(), text(ANY, 16), text(ANY, 12), crate::util::num::<u8>()),
    )
        .prop_map(|(header, (name, online, max, time, map, next_map, location), (min, mode, version, level))| {
            Savage2State {
                header,
                name,
                online,
                max,
                time,
                map,
                next_map,
                location,
                min,
                mode,
                version,
                level,
            }
        })
}

impl Savage2State {
    pub fn datagram(&self) -> Vec<u8> {
        let mut o = self.header.to_vec();
        z(&mut o, &self.name);
        o.push(self.online);
        o.push(self.max);
        z(&mut o, &self.time);
        z(&mut o, &self.map);
        z(&mut o, &self.next_map);
        z(&mut o, &self.location);
        o.push(self.min);
        z(&mut o, &self.mode);
        z(&mut o, &self.version);
        o.push(self.level);
        o
    }

    pub fn expected(&self) -> savage2::Response {
        savage2::Response {
            name: self.name.clone(),
            players_online: self.online,
            players_maximum: self.max,
            players_minimum: self.min,
            time: self.time.clone(),
            map: self.map.clone(),
            next_map: self.next_map.clone(),
            location: self.location.clone(),
            game_mode: self.mode.clone(),
            protocol_version: self.version.clone(),
            level_minimum: self.level,
        }
    }
}

// ---------------------------------------------------------------------------------
// Just Cause 2: Multiplayer

#[derive(Debug, Clone, Serialize, Deserialize, PartialEq)]
pub struct Jc2mState {
    pub challenge: i32,
    pub hostname: String,
    pub version: String,
    pub description: String,
    pub password: String,
    pub maxplayers: u32,
    pub numplayers: Option<u32>,
    pub extras: Vec<(String, String)>,
    /// (name, steam id, ping)
    pub players: Vec<(String, String, u16)>,
    pub rot: usize,
    pub filler: [u8; 2],
}

pub fn jc2m_state() -> impl Strategy<Value = Jc2mState> {
    (
        crate::models::gamespy::gs3_challenge(),
        (text(ANY, 40), text(ANY, 12), text(ANY, 60), prop::sample::select(vec!["0", "1", "true", "false", "True"]).prop_map(|s| s.to_string())),
        (crate::util::num::<u32>(), prop::option::of(prop_oneof![0u32..200, crate::util::num::<u32>()])),
        prop::collection::vec(("[a-z]{3,9}", text(ANY, 16)), 0..6),
        prop_oneof![3 => prop::collection::vec((text(ANY, 14), "[0-9]{17}", crate::util::num::<u16>()), 0..4), 2 => prop::collection::vec((text(ANY, 10), "[0-9]{17}", crate::util::num::<u16>()), 4..101)],
        (any::<prop::sample::Index>(), any::<[u8; 2]>()),
    )
        .prop_map(|(challenge, (hostname, version, description, password), (maxplayers, numplayers), extras, players, (rot, filler))| {
            let typed = ["hostname", "version", "description", "password", "maxplayers", "numplayers"];
            let extras = dedup_by_key(extras).into_iter().filter(|(k, _)| !typed.contains(&k.as_str())).collect();
            let mut st = Jc2mState {
                challenge,
                hostname,
                version,
                description,
                password,
                maxplayers,
                numplayers,
                extras,
                players,
                rot: rot.index(16),
                filler,
            };
            while st.datagram().len() > 2048 {
                let n = st.players.len() * 3 / 4;
                st.players.truncate(n);
            }
            st
        })
}

impl Jc2mState {
    pub fn datagram(&self) -> Vec<u8> {
        let mut o = vec![0x00, 0x00, 0x00, 0x00, 0x01];
        o.extend_from_slice(b"splitnum\0");
        o.extend_from_slice(&self.filler);
        let mut pairs: Vec<(String, String)> = vec![
            ("hostname".into(), self.hostname.clone()),
            ("version".into(), self.version.clone()),
            ("description".into(), self.description.clone()),
            ("password".into(), self.password.clone()),
            ("maxplayers".into(), self.maxplayers.to_string()),
        ];
        if let Some(n) = self.numplayers {
            pairs.push(("numplayers".into(), n.to_string()));
        }
        pairs.extend(self.extras.iter().cloned());
        let r = self.rot % pairs.len();
        pairs.rotate_left(r);
        for (k, v) in pairs {
            z(&mut o, &k);
            z(&mut o, &v);
        }
        o.push(0);
        o.extend_from_slice(&(self.players.len() as u16).to_be_bytes());
        for (n, s, p) in &self.players {
            z(&mut o, n);
            z(&mut o, s);
            o.extend_from_slice(&p.to_be_bytes());
        }
        o
    }

    pub fn expected(&self) -> jc2m::Response {
        let listed = self.players.len() as u32;
        jc2m::Response {
            game_version: self.version.clone(),
            description: self.description.clone(),
            name: self.hostname.clone(),
            has_password: match self.password.to_lowercase().as_str() {
                "true" => true,
                "false" => false,
                n => n.parse::<u8>().unwrap() != 0,
            },
            players: self
                .players
                .iter()
                .map(|(n, s, p)| {
                    jc2m::Player {
                        name: n.clone(),
                        steam_id: s.clone(),
                        ping: *p,
                    }
                })
                .collect(),
            players_maximum: self.maxplayers,
            players_online: match self.numplayers {
                None => listed,
                Some(r) => r.max(listed),
            },
        }
    }
}

// ---------------------------------------------------------------------------------
// Mindustry

#[derive(Debug, Clone, Serialize, Deserialize, PartialEq)]
pub struct MindustryState {
    pub host: String,
    pub map: String,
    pub players: i32,
    pub wave: i32,
    pub version: i32,
    pub version_type: String,
    pub mode: u8,
    pub limit: i32,
    pub description: String,
    pub mode_name: Option<String>,
}

fn lp_text(max_chars: usize) -> impl Strategy<Value = String> {
    text(ANY, max_chars).prop_map(|mut s| {
        while s.len() > 255 {
            s.pop();
        }
        s
    })
}

pub fn mindustry_state() -> impl Strategy<Value = MindustryState> {
    (
        (lp_text(40), lp_text(30), crate::util::num::<i32>(), crate::util::num::<i32>(), crate::util::num::<i32>()),
        (lp_text(12), 0u8 ..= 4, crate::util::num::<i32>(), lp_text(60), prop::option::of(lp_text(16))),
    )
        .prop_map(|((host, map, players, wave, version), (version_type, mode, limit, description, mode_name))| {
            let mut st = MindustryState {
                host,
                map,
                players,
                wave,
                version,
                version_type,
                mode,
                limit,
                description,
                mode_name,
            };
            while st.datagram().len() > 500 {
                st.description.pop();
                st.host.pop();
            }
            st
        })
}

fn lp(out: &mut Vec<u8>, s: &str) {
    out.push(s.len() as u8);
    out.extend_from_slice(s.as_bytes());
}

pub const MINDUSTRY_REQUEST: [u8; 2] = [0xFE, 0x01];

impl MindustryState {
    pub fn datagram(&self) -> Vec<u8> {
        let mut o = Vec::new();
        lp(&mut o, &self.host);
        lp(&mut o, &self.map);
        o.extend_from_slice(&self.players.to_be_bytes());
        o.extend_from_slice(&self.wave.to_be_bytes());
        o.extend_from_slice(&self.version.to_be_bytes());
        lp(&mut o, &self.version_type);
        o.push(self.mode);
        o.extend_from_slice(&self.limit.to_be_bytes());
        lp(&mut o, &self.description);
        if let Some(m) = &self.mode_name {
            lp(&mut o, m);
        }
        o
    }

    pub fn expected(&self) -> mindustry::types::ServerData {
        use mindustry::types::GameMode::*;
        mindustry::types::ServerData {
            host: self.host.clone(),
            map: self.map.clone(),
            players: self.players,
            wave: self.wave,
            version: self.version,
            version_type: self.version_type.clone(),
            gamemode: [Survival, Sandbox, Attack, PVP, Editor][self.mode as usize].clone(),
            player_limit: self.limit,
            description: self.description.clone(),
            mode_name: self.mode_name.clone(),
        }
    }
}
