//! Valve A2S: server state, reference encoder, fragmenter, reactive server, expected response.
//! Written from the Valve "Server queries" document, not from the parser.

use gamedig::protocols::types::GatherToggle;
use gamedig::protocols::valve::{self, Engine, Environment, ExtraData, GatheringSettings, ModData, Server, ServerInfo, ServerPlayer, TheShip};
use gamedig::verif_hook::Proto;
use proptest::prelude::*;
use serde::{Deserialize, Serialize};
use std::collections::HashMap;
use std::net::SocketAddr;

use crate::util::{dedup_by_key, text};
use crate::wire::{Outbox, Responder};

pub const INFO_REQ: &[u8] = b"\xFF\xFF\xFF\xFFTSource Engine Query\0";

#[derive(Debug, Clone, Copy, Serialize, Deserialize, PartialEq, Eq, Hash)]
pub enum EngineSel {
    SourceNone,
    /// Source with an expected app id (and optional dedicated id)
    Source(u32, Option<u32>),
    /// app 2400
    Ship,
    /// app 240 (protocol 7 variant without the split size field)
    Css,
    /// app 632360 (drops the `Test` rule)
    Ror2,
    GoldSrc(bool),
}

impl EngineSel {
    pub fn engine(self) -> Engine {
        match self {
            EngineSel::SourceNone => Engine::Source(None),
            EngineSel::Source(a, d) => Engine::Source(Some((a, d))),
            EngineSel::Ship => Engine::new(2400),
            EngineSel::Css => Engine::new(240),
            EngineSel::Ror2 => Engine::new(632_360),
            EngineSel::GoldSrc(f) => Engine::GoldSrc(f),
        }
    }
    pub fn is_goldsrc(self) -> bool { matches!(self, EngineSel::GoldSrc(_)) }
    pub fn obsolete_info(self) -> bool { matches!(self, EngineSel::GoldSrc(true)) }
    pub fn is_ship(self) -> bool { self.engine() == Engine::new(2400) }
    pub fn expected_ids(self) -> Option<(u32, Option<u32>)> {
        match self.engine() {
            Engine::Source(x) => x,
            _ => None,
        }
    }
}

#[derive(Debug, Clone, Serialize, Deserialize, PartialEq)]
pub struct Edf {
    pub port: Option<u16>,
    pub steam_id: Option<u64>,
    pub tv: Option<(u16, String)>,
    pub keywords: Option<String>,
    pub game_id: Option<u64>,
}

impl Edf {
    pub fn mask(&self) -> u8 {
        (if self.port.is_some() { 0x80 } else { 0 })
            | (if self.steam_id.is_some() { 0x10 } else { 0 })
            | (if self.tv.is_some() { 0x40 } else { 0 })
            | (if self.keywords.is_some() { 0x20 } else { 0 })
            | (if self.game_id.is_some() { 0x01 } else { 0 })
    }
}

#[derive(Debug, Clone, Serialize, Deserialize, PartialEq)]
pub struct ModBlock {
    pub link: String,
    pub download: String,
    pub version: u32,
    pub size: u32,
    pub mp_only: u8,
    pub own_dll: u8,
}

#[derive(Debug, Clone, Serialize, Deserialize, PartialEq)]
pub struct Info {
    pub protocol: u8,
    /// obsolete GoldSrc layout only
    pub address: String,
    pub name: String,
    pub map: String,
    pub folder: String,
    pub game: String,
    pub appid: u16,
    pub players: u8,
    pub max: u8,
    pub bots: u8,
    /// 'd','l','p' in either case
    pub server_type: u8,
    /// 'l','w','m','o' in either case
    pub environment: u8,
    pub visibility: u8,
    pub vac: u8,
    pub ship: (u8, u8, u8),
    pub version: String,
    pub edf: Option<Edf>,
    /// obsolete GoldSrc layout only
    pub mod_block: Option<ModBlock>,
}

#[derive(Debug, Clone, Serialize, Deserialize, PartialEq)]
pub struct Player {
    pub index: u8,
    pub name: String,
    pub score: i32,
    /// f32 bits (so that the case is exactly reproducible)
    pub duration_bits: u32,
    pub deaths: u32,
    pub money: u32,
}

#[derive(Debug, Clone, Serialize, Deserialize, PartialEq)]
pub enum Framing {
    Single,
    /// cut points as fractions (per-mille) of the payload, sorted; n fragments = cuts.len()+1
    Split { cuts: Vec<u16>, compressed: bool },
}

#[derive(Debug, Clone, Serialize, Deserialize, PartialEq)]
pub struct Section {
    /// challenges issued before the answer (0-3)
    pub challenges: Vec<[u8; 4]>,
    pub framing: Framing,
    pub split_id: u32,
}

#[derive(Debug, Clone, Serialize, Deserialize, PartialEq)]
pub struct A2sState {
    pub engine: EngineSel,
    pub info: Info,
    pub players: Vec<Player>,
    pub rules: Vec<(String, String)>,
    pub t_info: Section,
    pub t_players: Section,
    pub t_rules: Section,
}

// ---------------------------------------------------------------------------------
// generators

fn s0(max: usize) -> impl Strategy<Value = String> { text(&[], max) }

fn edf() -> impl Strategy<Value = Option<Edf>> {
    prop_oneof![
        1 => Just(None),
        8 => (
            prop::option::of(crate::util::num::<u16>()),
            prop::option::of(crate::util::num::<u64>()),
            prop::option::of((crate::util::num::<u16>(), s0(40))),
            prop::option::of(s0(80)),
            prop::option::of(prop_oneof![crate::util::num::<u64>(), (0u64..0x0100_0000)]),
        )
            .prop_map(|(port, steam_id, tv, keywords, game_id)| Some(Edf { port, steam_id, tv, keywords, game_id })),
    ]
}

fn case_of(c: u8, upper: bool) -> u8 {
    if upper {
        c.to_ascii_uppercase()
    } else {
        c
    }
}

pub fn info(engine: EngineSel) -> impl Strategy<Value = Info> {
    let obsolete = engine.obsolete_info();
    (
        (crate::util::num::<u8>(), "[0-9]{1,3}\\.[0-9]{1,3}\\.[0-9]{1,3}\\.[0-9]{1,3}:[0-9]{1,5}", s0(120), s0(60), s0(40), s0(80)),
        (crate::util::num::<u16>(), crate::util::num::<u8>(), crate::util::num::<u8>(), crate::util::num::<u8>()),
        (
            prop::sample::select(vec![b'd', b'l', b'p']),
            prop::sample::select(vec![b'l', b'w', b'm', b'o']),
            any::<bool>(),
            any::<bool>(),
            0u8 ..= 1,
            0u8 ..= 1,
        ),
        (crate::util::num::<u8>(), crate::util::num::<u8>(), crate::util::num::<u8>()),
        s0(30),
        edf(),
        prop::option::of((s0(60), s0(60), crate::util::num::<u32>(), crate::util::num::<u32>(), 0u8 ..= 1, 0u8 ..= 1)),
    )
        .prop_map(
            move |((protocol, address, name, map, folder, game), (appid, players, max, bots), (st, env, up1, up2, vis, vac), ship, version, edf, modb)| {
                let (server_type, environment) = if obsolete {
                    // obsolete layout: upper case only, environment L or W
                    (st.to_ascii_uppercase(), if env == b'l' { b'L' } else { b'W' })
                } else {
                    (case_of(st, up1), case_of(env, up2))
                };
                Info {
                    protocol,
                    address,
                    name,
                    map,
                    folder,
                    game,
                    appid,
                    players,
                    max,
                    bots,
                    server_type,
                    environment,
                    visibility: vis,
                    vac,
                    ship,
                    version,
                    edf,
                    mod_block: modb.map(|(link, download, version, size, mp_only, own_dll)| {
                        ModBlock {
                            link,
                            download,
                            version,
                            size,
                            mp_only,
                            own_dll,
                        }
                    }),
                }
            },
        )
}

fn f32_bits() -> impl Strategy<Value = u32> {
    prop_oneof![
        3 => (0f32..100000f32).prop_map(|f| f.to_bits()),
        1 => Just((-1f32).to_bits()),
        1 => Just(0f32.to_bits()),
        2 => crate::util::num::<u32>().prop_map(|b| if f32::from_bits(b).is_nan() { b & 0x7F00_0000 } else { b }),
    ]
}

pub fn player() -> impl Strategy<Value = Player> {
    (crate::util::num::<u8>(), s0(40), prop_oneof![crate::util::num::<i32>(), -10i32..500], f32_bits(), crate::util::num::<u32>(), crate::util::num::<u32>()).prop_map(
        |(index, name, score, duration_bits, deaths, money)| {
            Player {
                index,
                name,
                score,
                duration_bits,
                deaths,
                money,
            }
        },
    )
}

pub fn players_vec() -> impl Strategy<Value = Vec<Player>> {
    prop_oneof![
        4 => prop::collection::vec(player(), 0..4),
        3 => prop::collection::vec(player(), 4..33),
        1 => prop::collection::vec(player(), 33..256),
    ]
}

pub fn rules_vec() -> impl Strategy<Value = Vec<(String, String)>> {
    prop_oneof![
        4 => prop::collection::vec((s0(24), s0(40)), 0..6),
        3 => prop::collection::vec((s0(24), s0(40)), 6..60),
        1 => prop::collection::vec((s0(12), s0(12)), 60..400),
    ]
    .prop_map(dedup_by_key)
}

fn challenge() -> impl Strategy<Value = [u8; 4]> {
    let b = prop_oneof![3 => crate::util::num::<u8>(), 2 => prop::sample::select(vec![0x00u8, 0x0A, 0x41, 0xFE, 0xFF])];
    [b.clone(), b.clone(), b.clone(), b]
}

pub fn section(allow_compressed: bool) -> impl Strategy<Value = Section> {
    (
        prop_oneof![5 => prop::collection::vec(challenge(), 0..1), 3 => prop::collection::vec(challenge(), 1..2), 1 => prop::collection::vec(challenge(), 2..4)],
        prop_oneof![
            6 => Just(Framing::Single),
            3 => prop::collection::vec(0u16..1000, 1..6).prop_map(|mut c| { c.sort(); Framing::Split { cuts: c, compressed: false } }),
            1 => prop::collection::vec(0u16..1000, 1..15).prop_map(|mut c| { c.sort(); Framing::Split { cuts: c, compressed: false } }),
            1 => prop::collection::vec(0u16..1000, 0..5).prop_map(move |mut c| { c.sort(); Framing::Split { cuts: c, compressed: allow_compressed } }),
        ],
        crate::util::num::<u32>(),
    )
        .prop_map(|(challenges, framing, split_id)| {
            Section {
                challenges,
                framing,
                split_id: split_id & 0x7FFF_FFFF,
            }
        })
}

pub fn engine_sel() -> impl Strategy<Value = EngineSel> {
    prop_oneof![
        3 => Just(EngineSel::SourceNone),
        3 => (crate::util::num::<u16>()).prop_map(|a| EngineSel::Source(a as u32, None)),
        1 => (crate::util::num::<u16>(), crate::util::num::<u16>()).prop_map(|(a, d)| EngineSel::Source(a as u32, Some(d as u32))),
        2 => Just(EngineSel::Ship),
        2 => Just(EngineSel::Css),
        1 => Just(EngineSel::Ror2),
        2 => Just(EngineSel::GoldSrc(false)),
        2 => Just(EngineSel::GoldSrc(true)),
    ]
}

pub fn state_for(engine: EngineSel) -> impl Strategy<Value = A2sState> {
    let golds = engine.is_goldsrc();
    (info(engine), players_vec(), rules_vec(), section(!golds), section(!golds), section(!golds), any::<bool>()).prop_map(
        move |(mut info, players, mut rules, t_info, t_players, t_rules, proto7)| {
            if engine == EngineSel::Css && proto7 {
                info.protocol = 7;
            }
            if engine == EngineSel::Ror2 && !rules.iter().any(|(k, _)| k == "Test") {
                rules.push(("Test".into(), "x".into()));
            }
            A2sState {
                engine,
                info,
                players,
                rules,
                t_info,
                t_players,
                t_rules,
            }
        },
    )
}

pub fn state() -> impl Strategy<Value = A2sState> { engine_sel().prop_flat_map(state_for) }

// ---------------------------------------------------------------------------------
// encoder

fn put_s(out: &mut Vec<u8>, s: &str) {
    out.extend_from_slice(s.as_bytes());
    out.push(0);
}

impl A2sState {
    /// Full single-packet info reply (with the FFFFFFFF header).
    pub fn encode_info(&self) -> Vec<u8> {
        let i = &self.info;
        let mut o = vec![0xFF, 0xFF, 0xFF, 0xFF];
        if self.engine.obsolete_info() {
            o.push(0x6D);
            put_s(&mut o, &i.address);
            put_s(&mut o, &i.name);
            put_s(&mut o, &i.map);
            put_s(&mut o, &i.folder);
            put_s(&mut o, &i.game);
            o.extend_from_slice(&[i.players, i.max, i.protocol, i.server_type, i.environment, i.visibility]);
            match &i.mod_block {
                None => o.push(0),
                Some(m) => {
                    o.push(1);
                    put_s(&mut o, &m.link);
                    put_s(&mut o, &m.download);
                    o.push(0);
                    o.extend_from_slice(&m.version.to_le_bytes());
                    o.extend_from_slice(&m.size.to_le_bytes());
                    o.push(m.mp_only);
                    o.push(m.own_dll);
                }
            }
            o.push(i.vac);
            o.push(i.bots);
            return o;
        }
        o.push(0x49);
        o.push(i.protocol);
        put_s(&mut o, &i.name);
        put_s(&mut o, &i.map);
        put_s(&mut o, &i.folder);
        put_s(&mut o, &i.game);
        o.extend_from_slice(&i.appid.to_le_bytes());
        o.extend_from_slice(&[i.players, i.max, i.bots, i.server_type, i.environment, i.visibility, i.vac]);
        if self.engine.is_ship() {
            o.extend_from_slice(&[i.ship.0, i.ship.1, i.ship.2]);
        }
        put_s(&mut o, &i.version);
        if let Some(e) = &i.edf {
            o.push(e.mask());
            if let Some(p) = e.port {
                o.extend_from_slice(&p.to_le_bytes());
            }
            if let Some(s) = e.steam_id {
                o.extend_from_slice(&s.to_le_bytes());
            }
            if let Some((p, n)) = &e.tv {
                o.extend_from_slice(&p.to_le_bytes());
                put_s(&mut o, n);
            }
            if let Some(k) = &e.keywords {
                put_s(&mut o, k);
            }
            if let Some(g) = e.game_id {
                o.extend_from_slice(&g.to_le_bytes());
            }
        }
        o
    }

    pub fn encode_players(&self) -> Vec<u8> {
        let mut o = vec![0xFF, 0xFF, 0xFF, 0xFF, 0x44, self.players.len() as u8];
        for p in &self.players {
            o.push(p.index);
            put_s(&mut o, &p.name);
            o.extend_from_slice(&p.score.to_le_bytes());
            o.extend_from_slice(&p.duration_bits.to_le_bytes());
            if self.engine.is_ship() {
                // placement as implemented (see DESIGN §5): directly after each player
                o.extend_from_slice(&p.deaths.to_le_bytes());
                o.extend_from_slice(&p.money.to_le_bytes());
            }
        }
        o
    }

    pub fn encode_rules(&self) -> Vec<u8> {
        let mut o = vec![0xFF, 0xFF, 0xFF, 0xFF, 0x45];
        o.extend_from_slice(&(self.rules.len() as u16).to_le_bytes());
        for (k, v) in &self.rules {
            put_s(&mut o, k);
            put_s(&mut o, v);
        }
        o
    }

    /// The protocol number the client passes to the split-packet reader for a section.
    fn no_size_field(&self, kind: Kind) -> bool {
        // info is requested with protocol 0; players/rules with the protocol from the info reply
        kind != Kind::Info && self.engine == EngineSel::Css && self.info.protocol == 7
    }

    pub fn datagrams(&self, kind: Kind) -> Option<Vec<Vec<u8>>> {
        let (payload, sec) = match kind {
            Kind::Info => (self.encode_info(), &self.t_info),
            Kind::Players => (self.encode_players(), &self.t_players),
            Kind::Rules => (self.encode_rules(), &self.t_rules),
        };
        frame(&payload, &sec.framing, sec.split_id, self.engine.is_goldsrc(), self.no_size_field(kind))
    }

    // -----------------------------------------------------------------------------
    // expected values

    pub fn expected_info(&self) -> ServerInfo {
        let i = &self.info;
        let server_type = match i.server_type.to_ascii_lowercase() {
            b'd' => Server::Dedicated,
            b'l' => Server::NonDedicated,
            _ => Server::TV,
        };
        let environment_type = match i.environment.to_ascii_lowercase() {
            b'l' => Environment::Linux,
            b'w' => Environment::Windows,
            _ => Environment::Mac,
        };
        if self.engine.obsolete_info() {
            return ServerInfo {
                protocol_version: i.protocol,
                name: i.name.clone(),
                map: i.map.clone(),
                folder: i.folder.clone(),
                game_mode: i.game.clone(),
                appid: 0,
                players_online: i.players,
                players_maximum: i.max,
                players_bots: i.bots,
                server_type,
                environment_type,
                has_password: i.visibility == 1,
                vac_secured: i.vac == 1,
                the_ship: None,
                game_version: String::new(),
                extra_data: None,
                is_mod: i.mod_block.is_some(),
                mod_data: i.mod_block.as_ref().map(|m| {
                    ModData {
                        link: m.link.clone(),
                        download_link: m.download.clone(),
                        version: m.version,
                        size: m.size,
                        multiplayer_only: m.mp_only == 1,
                        has_own_dll: m.own_dll == 1,
                    }
                }),
            };
        }
        let mut appid = i.appid as u32;
        if let Some(Edf {
            game_id: Some(g), ..
        }) = &i.edf
        {
            appid = (*g & 0xFF_FFFF) as u32;
        }
        ServerInfo {
            protocol_version: i.protocol,
            name: i.name.clone(),
            map: i.map.clone(),
            folder: i.folder.clone(),
            game_mode: i.game.clone(),
            appid,
            players_online: i.players,
            players_maximum: i.max,
            players_bots: i.bots,
            server_type,
            environment_type,
            has_password: i.visibility == 1,
            vac_secured: i.vac == 1,
            the_ship: if self.engine.is_ship() {
                Some(TheShip {
                    mode: i.ship.0,
                    witnesses: i.ship.1,
                    duration: i.ship.2,
                })
            } else {
                None
            },
            game_version: i.version.clone(),
            extra_data: i.edf.as_ref().map(|e| {
                ExtraData {
                    port: e.port,
                    steam_id: e.steam_id,
                    tv_port: e.tv.as_ref().map(|t| t.0),
                    tv_name: e.tv.as_ref().map(|t| t.1.clone()),
                    keywords: e.keywords.clone(),
                    game_id: e.game_id,
                }
            }),
            is_mod: false,
            mod_data: None,
        }
    }

    pub fn expected_players(&self) -> Vec<ServerPlayer> {
        self.players
            .iter()
            .map(|p| {
                ServerPlayer {
                    name: p.name.clone(),
                    score: p.score,
                    duration: f32::from_bits(p.duration_bits),
                    deaths: if self.engine.is_ship() { Some(p.deaths) } else { None },
                    money: if self.engine.is_ship() { Some(p.money) } else { None },
                }
            })
            .collect()
    }

    pub fn expected_rules(&self) -> HashMap<String, String> {
        let mut m: HashMap<String, String> = self.rules.iter().cloned().collect();
        if self.engine == EngineSel::Ror2 {
            m.remove("Test");
        }
        m
    }

    /// Expected app id as the client sees it.
    pub fn seen_appid(&self) -> u32 { self.expected_info().appid }

    pub fn expected_response(&self, gather: &GatheringSettings) -> valve::Response {
        valve::Response {
            info: self.expected_info(),
            players: if gather.players == GatherToggle::Skip { None } else { Some(self.expected_players()) },
            rules: if gather.rules == GatherToggle::Skip { None } else { Some(self.expected_rules()) },
        }
    }
}

/// Split `payload` into datagrams.
pub fn frame(payload: &[u8], framing: &Framing, id: u32, goldsrc: bool, no_size_field: bool) -> Option<Vec<Vec<u8>>> {
    match framing {
        Framing::Single => Some(vec![payload.to_vec()]),
        Framing::Split { cuts, compressed } => {
            let compressed = *compressed && !goldsrc;
            let body: Vec<u8> = if compressed { crate::bz2::compress(payload, 1 + (id % 9) as u8)? } else { payload.to_vec() };
            let mut points: Vec<usize> = cuts.iter().map(|c| (*c as usize * body.len()) / 1000).collect();
            points.sort();
            let max_frags = if goldsrc { 15 } else { 255 };
            points.truncate(max_frags - 1);
            // every datagram must fit the client's 6144-byte receive size (the body may be the compressed form)
            const LIMIT: usize = 6144 - 32;
            let too_big = {
                let mut prev = 0;
                let mut big = false;
                for p in points.iter().chain(std::iter::once(&body.len())) {
                    if p - prev > LIMIT {
                        big = true;
                    }
                    prev = *p;
                }
                big
            };
            if too_big {
                let n = (body.len() / LIMIT + 1).max(points.len() + 1).min(max_frags);
                points = (1 .. n).map(|k| k * body.len() / n).collect();
            }
            let mut frags: Vec<&[u8]> = Vec::new();
            let mut prev = 0;
            for p in points {
                frags.push(&body[prev .. p]);
                prev = p;
            }
            frags.push(&body[prev ..]);
            let total = frags.len() as u8;
            let mut out = Vec::new();
            for (n, f) in frags.iter().enumerate() {
                let mut d = vec![0xFE, 0xFF, 0xFF, 0xFF];
                let idv = if compressed { id | 0x8000_0000 } else { id & 0x7FFF_FFFF };
                d.extend_from_slice(&idv.to_le_bytes());
                if goldsrc {
                    d.push(((n as u8) << 4) | total);
                } else {
                    d.push(total);
                    d.push(n as u8);
                    if !no_size_field {
                        d.extend_from_slice(&1248u16.to_le_bytes());
                    }
                    if compressed && n == 0 {
                        d.extend_from_slice(&(payload.len() as u32).to_le_bytes());
                        d.extend_from_slice(&crc32fast::hash(payload).to_le_bytes());
                    }
                }
                d.extend_from_slice(f);
                out.push(d);
            }
            Some(out)
        }
    }
}

/// Make a framing that keeps every datagram within the client's 6144-byte receive size.
pub fn fit_framing(payload_len: usize, framing: Framing, goldsrc: bool) -> Framing {
    const LIMIT: usize = 6144 - 32;
    let needs = |cuts: &Vec<u16>| -> bool {
        let mut pts: Vec<usize> = cuts.iter().map(|c| (*c as usize * payload_len) / 1000).collect();
        pts.sort();
        let mut prev = 0;
        for p in pts.iter().chain(std::iter::once(&payload_len)) {
            if p - prev > LIMIT {
                return true;
            }
            prev = *p;
        }
        false
    };
    match framing {
        Framing::Single if payload_len <= 6144 => Framing::Single,
        Framing::Split { cuts, compressed } if !needs(&cuts) => Framing::Split { cuts, compressed },
        other => {
            let compressed = matches!(other, Framing::Split { compressed: true, .. });
            let max = if goldsrc { 15 } else { 255 };
            let mut n = (payload_len / LIMIT + 1).min(max);
            loop {
                let cuts: Vec<u16> = (1 .. n).map(|k| ((k * 1000) / n) as u16).collect();
                if !needs(&cuts) || n >= max {
                    return Framing::Split { cuts, compressed };
                }
                n += 1;
            }
        }
    }
}

// ---------------------------------------------------------------------------------
// reactive server

#[derive(Debug, Clone, Copy, PartialEq, Eq, Hash, Serialize, Deserialize)]
pub enum Kind {
    Info,
    Players,
    Rules,
}

/// What the server does with one request attempt of a section.
#[derive(Debug, Clone, Copy, PartialEq, Eq, Hash, Serialize, Deserialize)]
pub enum Behave {
    Valid,
    Silent,
    /// replies with a datagram the parser must reject
    Malformed,
    /// the send itself fails
    SendFails,
}

pub fn classify(data: &[u8]) -> Option<(Kind, Option<[u8; 4]>)> {
    if data.len() >= INFO_REQ.len() && &data[.. INFO_REQ.len()] == INFO_REQ {
        let rest = &data[INFO_REQ.len() ..];
        return match rest.len() {
            0 => Some((Kind::Info, None)),
            4 => Some((Kind::Info, Some([rest[0], rest[1], rest[2], rest[3]]))),
            _ => None,
        };
    }
    if data.len() == 9 && data[.. 4] == [0xFF; 4] && (data[4] == 0x55 || data[4] == 0x56) {
        let k = if data[4] == 0x55 { Kind::Players } else { Kind::Rules };
        return Some((k, Some([data[5], data[6], data[7], data[8]])));
    }
    None
}

pub struct SectionServer {
    pub challenges: Vec<[u8; 4]>,
    pub datagrams: Vec<Vec<u8>>,
    /// next challenge index to issue
    issued: usize,
    /// per-attempt behaviours (attempt = a request that is not a challenge follow-up); beyond the end: Valid
    pub attempts: Vec<Behave>,
    attempt_no: usize,
    /// challenge rounds are followed by silence instead of the answer
    pub silent_after_challenge: bool,
    pub requests_seen: usize,
}

impl SectionServer {
    pub fn new(challenges: Vec<[u8; 4]>, datagrams: Vec<Vec<u8>>) -> Self {
        Self {
            challenges,
            datagrams,
            issued: 0,
            attempts: Vec::new(),
            attempt_no: 0,
            silent_after_challenge: false,
            requests_seen: 0,
        }
    }
}

/// A Valve server that answers info / players / rules requests from a state.
pub struct ValveServer {
    pub info: SectionServer,
    pub players: SectionServer,
    pub rules: SectionServer,
    pub unclassified: usize,
    pub wrong_challenge: usize,
}

impl ValveServer {
    pub fn from_state(st: &A2sState) -> Option<Self> {
        Some(Self {
            info: SectionServer::new(st.t_info.challenges.clone(), st.datagrams(Kind::Info)?),
            players: SectionServer::new(st.t_players.challenges.clone(), st.datagrams(Kind::Players)?),
            rules: SectionServer::new(st.t_rules.challenges.clone(), st.datagrams(Kind::Rules)?),
            unclassified: 0,
            wrong_challenge: 0,
        })
    }
}

pub fn malformed_reply(kind: Kind) -> Vec<u8> {
    match kind {
        // unknown server type byte -> UnknownEnumCast
        Kind::Info => b"\xFF\xFF\xFF\xFF\x49\x11n\0m\0f\0g\0\x01\x00\x01\x02\x00zl\x00\x00v\0".to_vec(),
        // declares 3 players, holds none -> underflow
        Kind::Players => b"\xFF\xFF\xFF\xFF\x44\x03".to_vec(),
        // declares 2 rules with invalid UTF-8
        Kind::Rules => b"\xFF\xFF\xFF\xFF\x45\x02\x00\xC3\x28\0v\0".to_vec(),
    }
}

impl Responder for ValveServer {
    fn on_send(&mut self, proto: Proto, _peer: &SocketAddr, _nth: usize, data: &[u8], out: &mut Outbox) {
        if proto != Proto::Udp {
            return;
        }
        let Some((kind, carried)) = classify(data) else {
            self.unclassified += 1;
            return;
        };
        let sec = match kind {
            Kind::Info => &mut self.info,
            Kind::Players => &mut self.players,
            Kind::Rules => &mut self.rules,
        };
        sec.requests_seen += 1;
        // is this a follow-up to a challenge we issued?
        let follow_up = sec.issued > 0 && sec.issued <= sec.challenges.len() && {
            let last = sec.challenges[sec.issued - 1];
            match kind {
                Kind::Info => carried == Some(last),
                _ => carried == Some(last),
            }
        };
        let fresh = match kind {
            Kind::Info => carried.is_none(),
            _ => carried == Some([0xFF; 4]),
        };
        // a fresh request restarts the exchange (this is what a retry looks like)
        let in_exchange = follow_up && !(fresh && sec.issued == 0);
        if !in_exchange {
            if !fresh {
                // neither a fresh request nor the echo of our challenge: ignore, as a real server would
                self.wrong_challenge += 1;
                return;
            }
            sec.issued = 0;
            let b = sec.attempts.get(sec.attempt_no).copied().unwrap_or(Behave::Valid);
            sec.attempt_no += 1;
            match b {
                Behave::Silent => return,
                Behave::SendFails => {
                    out.fail();
                    return;
                }
                Behave::Malformed => {
                    out.datagram(malformed_reply(kind));
                    return;
                }
                Behave::Valid => {}
            }
        }
        if sec.issued < sec.challenges.len() {
            let c = sec.challenges[sec.issued];
            sec.issued += 1;
            out.datagram([&[0xFF, 0xFF, 0xFF, 0xFF, 0x41][..], &c[..]].concat());
            return;
        }
        if sec.silent_after_challenge && !sec.challenges.is_empty() {
            return;
        }
        for d in &sec.datagrams {
            out.datagram(d.clone());
        }
        sec.issued = 0;
    }
}
