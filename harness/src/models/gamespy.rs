//! GameSpy 1/2/3: server states, reference encoders, expected responses.

use gamedig::protocols::gamespy::{one, three, two};
use gamedig::verif_hook::Proto;
use proptest::prelude::*;
use serde::{Deserialize, Serialize};
use std::collections::HashMap;
use std::net::SocketAddr;

use crate::util::{dedup_by_key, text};
use crate::wire::{Outbox, Responder};

const KV_EXCL: &[char] = &['\\'];

fn val(max: usize) -> impl Strategy<Value = String> { text(KV_EXCL, max) }

fn extra_key() -> impl Strategy<Value = String> {
    prop_oneof![
        4 => "[a-zA-Z][a-zA-Z0-9]{0,10}".prop_map(|s| s),
        1 => "[a-z]{3,6}_[0-9]{1,2}".prop_map(|s| s),
        1 => "[a-z]{2,5}_[a-z]{1,4}".prop_map(|s| s),
        // keys that only resemble the ones with a place in the response (Hostname, mapnames, xpassword, numplayer ...)
        1 => crate::util::near(&["hostname", "mapname", "maxplayers", "numplayers", "minplayers", "password", "gametype", "gamemode", "gamever", "tournament", "hostport", "final", "queryid", "AdminName", "AdminEMail"]),
    ]
}

fn password_text() -> impl Strategy<Value = String> {
    prop::sample::select(vec!["0", "1", "true", "false", "True", "False"]).prop_map(|s| s.to_string())
}

fn password_value(s: &str) -> bool {
    match s.to_lowercase().as_str() {
        "true" => true,
        "false" => false,
        n => n.parse::<u8>().unwrap() != 0,
    }
}

// =================================================================================
// GameSpy 1

#[derive(Debug, Clone, Serialize, Deserialize)]
pub struct Gs1Player {
    pub name: String,
    pub team: Option<u8>,
    pub ping: u16,
    pub face: Option<String>,
    pub skin: Option<String>,
    pub mesh: Option<String>,
    pub frags: i32,
    pub deaths: Option<u32>,
    pub health: Option<u32>,
    pub secret: Option<bool>,
}

#[derive(Debug, Clone, Serialize, Deserialize)]
pub struct Gs1State {
    pub hostname: String,
    pub mapname: String,
    pub maptitle: Option<String>,
    pub admin_email: Option<String>,
    pub admin_name: Option<String>,
    /// value of the alternative key `admin`
    pub admin_alt: Option<String>,
    pub password: String,
    pub gametype: String,
    pub gamever: String,
    pub maxplayers: u32,
    pub minplayers: Option<u8>,
    pub tournament: Option<String>,
    /// player name key is `playername` instead of `player`
    pub playername_key: bool,
    pub players: Vec<Gs1Player>,
    pub extras: Vec<(String, String)>,
    pub query_id: u32,
    /// wanted number of parts (more are used when a part would exceed a datagram)
    pub parts: usize,
    /// rotation of the pair order
    pub rot: usize,
}

const GS1_TYPED: &[&str] = &[
    "hostname",
    "mapname",
    "maptitle",
    "AdminEMail",
    "AdminName",
    "admin",
    "password",
    "gametype",
    "gamever",
    "maxplayers",
    "minplayers",
    "tournament",
    "final",
    "queryid",
];
const GS1_PLAYER_KINDS: &[&str] = &[
    "team",
    "player",
    "playername",
    "ping",
    "face",
    "skin",
    "mesh",
    "frags",
    "ngsecret",
    "deaths",
    "health",
];

fn gs1_extra_ok(k: &str) -> bool {
    if GS1_TYPED.contains(&k) {
        return false;
    }
    let parts: Vec<&str> = k.split('_').collect();
    if parts.len() == 2 && parts[1].parse::<usize>().is_ok() && GS1_PLAYER_KINDS.contains(&parts[0]) {
        return false;
    }
    true
}

fn gs1_player() -> impl Strategy<Value = Gs1Player> {
    (
        val(16),
        prop::option::of(crate::util::num::<u8>()),
        crate::util::num::<u16>(),
        prop::option::of(val(10)),
        prop::option::of(val(10)),
        prop::option::of(val(10)),
        prop_oneof![crate::util::num::<i32>(), -5i32..100],
        prop::option::of(crate::util::num::<u32>()),
        prop::option::of(crate::util::num::<u32>()),
        prop::option::of(any::<bool>()),
    )
        .prop_map(|(name, team, ping, face, skin, mesh, frags, deaths, health, secret)| {
            Gs1Player {
                name,
                team,
                ping,
                face,
                skin,
                mesh,
                frags,
                deaths,
                health,
                secret,
            }
        })
}

pub fn gs1_state() -> impl Strategy<Value = Gs1State> {
    (
        (val(60), val(30), prop::option::of(val(30)), prop::option::of(val(30)), prop::option::of(val(20)), prop::option::of(val(20))),
        (password_text(), val(20), val(12), crate::util::num::<u32>(), prop::option::of(crate::util::num::<u8>())),
        prop::option::of(prop::sample::select(vec!["true", "false", "True", "False"]).prop_map(|s| s.to_string())),
        any::<bool>(),
        prop_oneof![3 => prop::collection::vec(gs1_player(), 0..4), 2 => prop::collection::vec(gs1_player(), 4..17), 1 => prop::collection::vec(gs1_player(), 17..65)],
        prop::collection::vec((extra_key(), val(30)), 0..20),
        (crate::util::num::<u32>(), 1usize..8, any::<prop::sample::Index>()),
    )
        .prop_map(
            |((hostname, mapname, maptitle, admin_email, admin_name, admin_alt), (password, gametype, gamever, maxplayers, minplayers), tournament, playername_key, players, extras, (query_id, parts, rot))| {
                let extras: Vec<(String, String)> = dedup_by_key(extras).into_iter().filter(|(k, _)| gs1_extra_ok(k)).collect();
                Gs1State {
                    hostname,
                    mapname,
                    maptitle,
                    admin_email,
                    admin_name,
                    admin_alt,
                    password,
                    gametype,
                    gamever,
                    maxplayers,
                    minplayers,
                    tournament,
                    playername_key,
                    players,
                    rot: rot.index(64),
                    extras,
                    query_id,
                    parts,
                }
            },
        )
}

impl Gs1State {
    pub fn pairs(&self) -> Vec<(String, String)> {
        let mut v: Vec<(String, String)> = Vec::new();
        v.push(("hostname".into(), self.hostname.clone()));
        v.push(("mapname".into(), self.mapname.clone()));
        if let Some(x) = &self.maptitle {
            v.push(("maptitle".into(), x.clone()));
        }
        if let Some(x) = &self.admin_email {
            v.push(("AdminEMail".into(), x.clone()));
        }
        if let Some(x) = &self.admin_name {
            v.push(("AdminName".into(), x.clone()));
        }
        if let Some(x) = &self.admin_alt {
            v.push(("admin".into(), x.clone()));
        }
        v.push(("password".into(), self.password.clone()));
        v.push(("gametype".into(), self.gametype.clone()));
        v.push(("gamever".into(), self.gamever.clone()));
        v.push(("maxplayers".into(), self.maxplayers.to_string()));
        if let Some(x) = self.minplayers {
            v.push(("minplayers".into(), x.to_string()));
        }
        if let Some(x) = &self.tournament {
            v.push(("tournament".into(), x.clone()));
        }
        for (k, x) in &self.extras {
            v.push((k.clone(), x.clone()));
        }
        if !v.is_empty() {
            let r = self.rot % v.len();
            v.rotate_left(r);
        }
        for (i, p) in self.players.iter().enumerate() {
            let nk = if self.playername_key { "playername" } else { "player" };
            v.push((format!("{nk}_{i}"), p.name.clone()));
            v.push((format!("frags_{i}"), p.frags.to_string()));
            v.push((format!("ping_{i}"), format!(" {}", p.ping)));
            if let Some(t) = p.team {
                v.push((format!("team_{i}"), t.to_string()));
            }
            if let Some(x) = &p.face {
                v.push((format!("face_{i}"), x.clone()));
            }
            if let Some(x) = &p.skin {
                v.push((format!("skin_{i}"), x.clone()));
            }
            if let Some(x) = &p.mesh {
                v.push((format!("mesh_{i}"), x.clone()));
            }
            if let Some(x) = p.deaths {
                v.push((format!("deaths_{i}"), x.to_string()));
            }
            if let Some(x) = p.health {
                v.push((format!("health_{i}"), x.to_string()));
            }
            if let Some(x) = p.secret {
                v.push((format!("ngsecret_{i}"), if x { "True".into() } else { "false".to_string() }));
            }
        }
        v
    }

    /// Datagrams in part order.
    pub fn encode(&self) -> Vec<Vec<u8>> {
        let pairs = self.pairs();
        let chunks: Vec<Vec<u8>> = pairs
            .iter()
            .map(|(k, v)| format!("\\{k}\\{v}").into_bytes())
            .collect();
        let total: usize = chunks.iter().map(|c| c.len()).sum();
        let budget = 1024 - 40;
        let mut target = (total / self.parts.max(1)).max(1).min(budget);
        loop {
            let mut parts: Vec<Vec<u8>> = vec![Vec::new()];
            for c in &chunks {
                let cur = parts.last_mut().unwrap();
                if !cur.is_empty() && cur.len() + c.len() > target {
                    parts.push(Vec::new());
                }
                parts.last_mut().unwrap().extend_from_slice(c);
            }
            if parts.iter().all(|p| p.len() <= budget) || target <= 1 {
                let n = parts.len();
                return parts
                    .into_iter()
                    .enumerate()
                    .map(|(i, mut p)| {
                        p.extend_from_slice(format!("\\queryid\\{}.{}", self.query_id, i + 1).as_bytes());
                        if i + 1 == n {
                            p.extend_from_slice(b"\\final\\");
                        }
                        p
                    })
                    .collect();
            }
            target = target * 3 / 4;
        }
    }

    pub fn expected_vars(&self) -> HashMap<String, String> { self.pairs().into_iter().collect() }

    pub fn expected(&self) -> one::Response {
        let mut unused: HashMap<String, String> = self.extras.iter().cloned().collect();
        if self.admin_name.is_some() {
            if let Some(a) = &self.admin_alt {
                unused.insert("admin".into(), a.clone());
            }
        }
        one::Response {
            name: self.hostname.clone(),
            map: self.mapname.clone(),
            map_title: self.maptitle.clone(),
            admin_contact: self.admin_email.clone(),
            admin_name: self.admin_name.clone().or_else(|| self.admin_alt.clone()),
            has_password: password_value(&self.password),
            game_mode: self.gametype.clone(),
            game_version: self.gamever.clone(),
            players_maximum: self.maxplayers,
            players_online: self.players.len() as u32,
            players_minimum: self.minplayers,
            players: self
                .players
                .iter()
                .map(|p| {
                    one::Player {
                        name: p.name.clone(),
                        team: p.team,
                        ping: p.ping,
                        face: p.face.clone(),
                        skin: p.skin.clone(),
                        mesh: p.mesh.clone(),
                        score: p.frags,
                        deaths: p.deaths,
                        health: p.health,
                        secret: p.secret,
                    }
                })
                .collect(),
            tournament: self
                .tournament
                .as_ref()
                .map(|t| t.to_lowercase() == "true")
                .unwrap_or(true),
            unused_entries: unused,
        }
    }
}

pub const GS1_REQUEST: &[u8] = b"\\status\\xserverquery";

/// Answers every status request with the given datagrams (in the given order).
pub struct DatagramServer {
    pub request: Vec<u8>,
    pub reply: Vec<Vec<u8>>,
}

impl Responder for DatagramServer {
    fn on_send(&mut self, proto: Proto, _peer: &SocketAddr, _nth: usize, data: &[u8], out: &mut Outbox) {
        if proto == Proto::Udp && data == self.request.as_slice() {
            for d in &self.reply {
                out.datagram(d.clone());
            }
        }
    }
}

// =================================================================================
// GameSpy 2

#[derive(Debug, Clone, Serialize, Deserialize)]
pub struct Gs2Player {
    pub name: String,
    pub score: u16,
    pub ping: u16,
    pub team: u16,
}

#[derive(Debug, Clone, Serialize, Deserialize)]
pub struct Gs2State {
    pub hostname: String,
    pub mapname: String,
    pub password: String,
    pub maxplayers: u32,
    pub minplayers: Option<u32>,
    pub numplayers: Option<u32>,
    pub extras: Vec<(String, String)>,
    pub players: Vec<Gs2Player>,
    pub teams: Vec<(String, u16)>,
    pub rot: usize,
    /// column order of the player table (permutation of 0..4)
    pub col_order: [u8; 4],
    pub team_cols_swapped: bool,
}

const GS2_TYPED: &[&str] = &["hostname", "mapname", "password", "maxplayers", "minplayers", "numplayers"];

/// The largest GameSpy 2 reply the model sends (one datagram).
pub const GS2_MAX_REPLY: usize = 4096;

const NUL_EXCL: &[char] = &[];

pub fn gs2_state() -> impl Strategy<Value = Gs2State> {
    (
        (text(NUL_EXCL, 40), text(NUL_EXCL, 24), prop::sample::select(vec!["0", "1", "2", ""]).prop_map(|s| s.to_string())),
        (crate::util::num::<u32>(), prop::option::of(crate::util::num::<u32>()), prop::option::of(prop_oneof![0u32..100, crate::util::num::<u32>()])),
        prop::collection::vec((extra_key(), text(NUL_EXCL, 20)), 0..10),
        prop_oneof![3 => prop::collection::vec((text(NUL_EXCL, 12), crate::util::num::<u16>(), crate::util::num::<u16>(), crate::util::num::<u16>()), 0..4), 2 => prop::collection::vec((text(NUL_EXCL, 10), crate::util::num::<u16>(), crate::util::num::<u16>(), 0u16..4), 4..65)],
        prop::collection::vec((text(NUL_EXCL, 12), crate::util::num::<u16>()), 0..9),
        (any::<prop::sample::Index>(), Just([0u8, 1, 2, 3]).prop_shuffle(), any::<bool>()),
    )
        .prop_map(|((hostname, mapname, password), (maxplayers, minplayers, numplayers), extras, players, teams, (rot, col_order, team_cols_swapped))| {
            let extras: Vec<(String, String)> = dedup_by_key(extras).into_iter().filter(|(k, _)| !GS2_TYPED.contains(&k.as_str())).collect();
            let mut st = Gs2State {
                hostname,
                mapname,
                password,
                maxplayers,
                minplayers,
                numplayers,
                extras,
                players: players
                    .into_iter()
                    .map(|(name, score, ping, team)| {
                        Gs2Player {
                            name,
                            score,
                            ping,
                            team,
                        }
                    })
                    .collect(),
                teams,
                rot: rot.index(64),
                col_order,
                team_cols_swapped,
            };
            // the reply is one datagram
            while st.encode().len() > GS2_MAX_REPLY {
                if st.players.len() > 1 {
                    let n = st.players.len() * 3 / 4;
                    st.players.truncate(n);
                } else if !st.extras.is_empty() {
                    st.extras.pop();
                } else if !st.teams.is_empty() {
                    st.teams.pop();
                } else {
                    st.players.clear();
                    st.hostname.truncate(st.hostname.char_indices().nth(8).map(|x| x.0).unwrap_or(st.hostname.len()));
                    st.mapname.truncate(st.mapname.char_indices().nth(8).map(|x| x.0).unwrap_or(st.mapname.len()));
                }
            }
            st
        })
}

pub const GS2_REQUEST: &[u8] = &[0xFE, 0xFD, 0x00, 0x00, 0x00, 0x00, 0x01, 0xFF, 0xFF, 0xFF];

fn z(out: &mut Vec<u8>, s: &str) {
    out.extend_from_slice(s.as_bytes());
    out.push(0);
}

impl Gs2State {
    pub fn pairs(&self) -> Vec<(String, String)> {
        let mut v: Vec<(String, String)> = vec![
            ("hostname".into(), self.hostname.clone()),
            ("mapname".into(), self.mapname.clone()),
            ("password".into(), self.password.clone()),
            ("maxplayers".into(), self.maxplayers.to_string()),
        ];
        if let Some(x) = self.minplayers {
            v.push(("minplayers".into(), x.to_string()));
        }
        if let Some(x) = self.numplayers {
            v.push(("numplayers".into(), x.to_string()));
        }
        v.extend(self.extras.iter().cloned());
        let r = self.rot % v.len();
        v.rotate_left(r);
        v
    }

    pub fn encode(&self) -> Vec<u8> {
        let mut o = vec![0x00, 0x00, 0x00, 0x00, 0x01];
        for (k, v) in self.pairs() {
            z(&mut o, &k);
            z(&mut o, &v);
        }
        o.push(0); // end of the key/value block
        // player table
        o.push(0);
        o.push(self.players.len() as u8);
        if !self.players.is_empty() {
            let heads = ["player_", "score_", "ping_", "team_"];
            for c in self.col_order {
                z(&mut o, heads[c as usize]);
            }
            o.push(0);
            for p in &self.players {
                for c in self.col_order {
                    match c {
                        0 => z(&mut o, &p.name),
                        1 => z(&mut o, &p.score.to_string()),
                        2 => z(&mut o, &p.ping.to_string()),
                        _ => z(&mut o, &p.team.to_string()),
                    }
                }
            }
        }
        // team table
        o.push(0);
        o.push(self.teams.len() as u8);
        if !self.teams.is_empty() {
            if self.team_cols_swapped {
                z(&mut o, "score_t");
                z(&mut o, "team_t");
            } else {
                z(&mut o, "team_t");
                z(&mut o, "score_t");
            }
            o.push(0);
            for (n, s) in &self.teams {
                if self.team_cols_swapped {
                    z(&mut o, &s.to_string());
                    z(&mut o, n);
                } else {
                    z(&mut o, n);
                    z(&mut o, &s.to_string());
                }
            }
        }
        o
    }

    pub fn expected(&self) -> two::Response {
        let listed = self.players.len() as u32;
        two::Response {
            name: self.hostname.clone(),
            map: self.mapname.clone(),
            has_password: self.password == "1",
            teams: self
                .teams
                .iter()
                .map(|(n, s)| {
                    two::Team {
                        name: n.clone(),
                        score: *s,
                    }
                })
                .collect(),
            players_maximum: self.maxplayers,
            players_online: match self.numplayers {
                None => listed,
                Some(r) => r.max(listed),
            },
            players_minimum: self.minplayers,
            players: self
                .players
                .iter()
                .map(|p| {
                    two::Player {
                        name: p.name.clone(),
                        score: p.score,
                        ping: p.ping,
                        team_index: p.team,
                    }
                })
                .collect(),
            unused_entries: self.extras.iter().cloned().collect(),
        }
    }
}

// =================================================================================
// GameSpy 3

#[derive(Debug, Clone, Serialize, Deserialize)]
pub struct Gs3Player {
    pub name: String,
    pub score: i32,
    pub ping: u16,
    pub team: u8,
    pub deaths: u32,
    pub pid: u32,
    pub skill: u32,
}

#[derive(Debug, Clone, Serialize, Deserialize)]
pub struct Gs3State {
    pub challenge: i32,
    pub hostname: String,
    pub mapname: String,
    pub password: String,
    pub gametype: String,
    pub gamever: String,
    pub maxplayers: u32,
    pub minplayers: Option<u8>,
    pub numplayers: Option<u32>,
    pub tournament: Option<String>,
    pub extras: Vec<(String, String)>,
    pub players: Vec<Gs3Player>,
    pub teams: Vec<(String, i32)>,
    pub with_pid: bool,
    pub rot: usize,
    /// wanted packet payload size (smaller => more packets)
    pub packet_budget: usize,
    /// per-player / per-team fields the client has no name for (`clan_`, `kill_streak_`, `colour_t`): (name without the `_` / `_t` ending, values)
    #[serde(default)]
    pub unknown_fields: Vec<(String, Vec<String>)>,
}

const GS3_TYPED: &[&str] = &[
    "hostname",
    "mapname",
    "password",
    "gametype",
    "gamever",
    "maxplayers",
    "minplayers",
    "numplayers",
    "tournament",
];

fn nonempty(max: usize) -> impl Strategy<Value = String> {
    text(NUL_EXCL, max).prop_map(|s| if s.is_empty() { "p".to_string() } else { s })
}

pub fn gs3_challenge() -> impl Strategy<Value = i32> {
    prop_oneof![
        2 => Just(0i32),
        4 => crate::util::num::<i32>(),
        2 => -70_000i32..70_000,
        1 => prop::sample::select(vec![i32::MIN, i32::MAX, -1, 1, 0x41, 255, 256, 65535, 65536, -65536]),
    ]
}

pub fn gs3_state() -> impl Strategy<Value = Gs3State> {
    (
        gs3_challenge(),
        (text(NUL_EXCL, 40), text(NUL_EXCL, 24), password_text(), text(NUL_EXCL, 16), text(NUL_EXCL, 10)),
        (crate::util::num::<u32>(), prop::option::of(crate::util::num::<u8>()), prop::option::of(prop_oneof![0u32..100, crate::util::num::<u32>()])),
        prop::option::of(prop::sample::select(vec!["true", "false", "True", "False"]).prop_map(|s| s.to_string())),
        prop::collection::vec((extra_key(), text(NUL_EXCL, 20)), 0..16),
        prop_oneof![3 => prop::collection::vec((nonempty(14), crate::util::num::<i32>(), crate::util::num::<u16>(), crate::util::num::<u8>(), crate::util::num::<u32>(), crate::util::num::<u32>(), crate::util::num::<u32>()), 0..4),
                    2 => prop::collection::vec((nonempty(14), -50i32..900, 0u16..500, 0u8..4, 0u32..50, crate::util::num::<u32>(), 0u32..9000), 4..65)],
        prop::collection::vec((nonempty(12), crate::util::num::<i32>()), 0..9),
        (
            any::<bool>(),
            any::<prop::sample::Index>(),
            prop_oneof![Just(1800usize), 60usize..400, 400usize..1800],
            // two states in three carry none; the values are arbitrary non-empty texts (an empty item ends a list), also ones that look like field names
            prop_oneof![
                2 => Just(Vec::new()),
                1 => prop::collection::vec(
                    (
                        "[A-Za-z]{1,8}(_[a-z]{1,6})?",
                        prop::collection::vec(prop_oneof![4 => nonempty(10), 1 => prop::sample::select(vec!["team", "score", "player", "ping_", "team_t", "score_t", "red_wolves", "no_clan", "skill_x", "1", "0"]).prop_map(|s| s.to_string())], 1..9),
                    ),
                    1..4
                ),
            ],
        ),
    )
        .prop_map(|(challenge, (hostname, mapname, password, gametype, gamever), (maxplayers, minplayers, numplayers), tournament, extras, players, teams, (with_pid, rot, packet_budget, unknown))| {
            let known = ["player", "score", "ping", "team", "deaths", "pid", "skill"];
            let unknown_fields: Vec<(String, Vec<String>)> = dedup_by_key(unknown).into_iter().filter(|(k, _)| !known.contains(&k.split('_').next().unwrap_or(""))).collect();
            let extras: Vec<(String, String)> = dedup_by_key(extras).into_iter().filter(|(k, _)| !GS3_TYPED.contains(&k.as_str())).collect();
            Gs3State {
                challenge,
                hostname,
                mapname,
                password,
                gametype,
                gamever,
                maxplayers,
                minplayers,
                numplayers,
                tournament,
                extras,
                players: players
                    .into_iter()
                    .map(|(name, score, ping, team, deaths, pid, skill)| {
                        Gs3Player {
                            name,
                            score,
                            ping,
                            team,
                            deaths,
                            pid,
                            skill,
                        }
                    })
                    .collect(),
                teams,
                with_pid,
                rot: rot.index(64),
                packet_budget,
                unknown_fields,
            }
        })
}

pub const GS3_HANDSHAKE: &[u8] = &[0xFE, 0xFD, 0x09, 0x00, 0x00, 0x00, 0x01];

pub fn gs3_data_request(challenge: i32, payload: [u8; 4]) -> Vec<u8> {
    let mut r = vec![0xFE, 0xFD, 0x00, 0x00, 0x00, 0x00, 0x01];
    if challenge != 0 {
        r.extend_from_slice(&challenge.to_be_bytes());
    }
    r.extend_from_slice(&payload);
    r
}

pub fn gs3_handshake_reply(challenge: i32) -> Vec<u8> {
    let mut r = vec![0x09, 0x00, 0x00, 0x00, 0x01];
    r.extend_from_slice(challenge.to_string().as_bytes());
    r.push(0);
    r
}

impl Gs3State {
    pub fn pairs(&self) -> Vec<(String, String)> {
        let mut v: Vec<(String, String)> = vec![
            ("hostname".into(), self.hostname.clone()),
            ("mapname".into(), self.mapname.clone()),
            ("password".into(), self.password.clone()),
            ("gametype".into(), self.gametype.clone()),
            ("gamever".into(), self.gamever.clone()),
            ("maxplayers".into(), self.maxplayers.to_string()),
        ];
        if let Some(x) = self.minplayers {
            v.push(("minplayers".into(), x.to_string()));
        }
        if let Some(x) = self.numplayers {
            v.push(("numplayers".into(), x.to_string()));
        }
        if let Some(x) = &self.tournament {
            v.push(("tournament".into(), x.clone()));
        }
        v.extend(self.extras.iter().cloned());
        let r = self.rot % v.len();
        v.rotate_left(r);
        v
    }

    /// Packet payloads (after the splitnum header), in packet order (at most 100 packets).
    pub fn payloads(&self) -> Vec<Vec<u8>> {
        let mut budget = self.packet_budget.clamp(40, 1900);
        loop {
            let p = self.payloads_with(budget);
            if p.len() <= 100 || budget >= 1900 {
                return p;
            }
            budget = (budget * 2).min(1900);
        }
    }

    fn payloads_with(&self, budget: usize) -> Vec<Vec<u8>> {
        let mut packets: Vec<Vec<u8>> = Vec::new();
        // section 0: all key/values in the first packet (the client takes them from packet 0 only)
        let mut first = Vec::new();
        for (k, v) in self.pairs() {
            z(&mut first, &k);
            z(&mut first, &v);
        }
        first.push(0);
        packets.push(first);
        // sections 1 and 2: fields with item lists, continued across packets
        let mut fields: Vec<(u8, String, Vec<String>)> = Vec::new();
        if !self.players.is_empty() {
            fields.push((1, "player_".into(), self.players.iter().map(|p| p.name.clone()).collect()));
            fields.push((1, "score_".into(), self.players.iter().map(|p| p.score.to_string()).collect()));
            fields.push((1, "ping_".into(), self.players.iter().map(|p| p.ping.to_string()).collect()));
            fields.push((1, "team_".into(), self.players.iter().map(|p| p.team.to_string()).collect()));
            fields.push((1, "deaths_".into(), self.players.iter().map(|p| p.deaths.to_string()).collect()));
            if self.with_pid {
                fields.push((1, "pid_".into(), self.players.iter().map(|p| p.pid.to_string()).collect()));
            }
            fields.push((1, "skill_".into(), self.players.iter().map(|p| p.skill.to_string()).collect()));
            // fields without a known name, between the known ones
            for (k, (name, vals)) in self.unknown_fields.iter().enumerate() {
                let at = 1 + (self.rot + k) % fields.len();
                fields.insert(at, (1, format!("{name}_"), (0 .. self.players.len()).map(|i| vals[i % vals.len()].clone()).collect()));
            }
        }
        if !self.teams.is_empty() {
            fields.push((2, "team_t".into(), self.teams.iter().map(|t| t.0.clone()).collect()));
            fields.push((2, "score_t".into(), self.teams.iter().map(|t| t.1.to_string()).collect()));
            if let Some((name, vals)) = self.unknown_fields.first() {
                let at = (self.rot % 3).min(fields.len());
                let first_team_field = fields.iter().position(|f| f.0 == 2).unwrap_or(fields.len());
                fields.insert(first_team_field.max(fields.len() - 2 + at.min(2)), (2, format!("{name}_t"), (0 .. self.teams.len()).map(|i| vals[i % vals.len()].clone()).collect()));
            }
        }
        let mut cur_section: u8 = 0;
        for (section, name, items) in fields {
            let mut offset = 0usize;
            loop {
                // open the field in the current packet
                let cur = packets.last_mut().unwrap();
                let header_len = 1 + name.len() + 2;
                if cur.len() + header_len + items.get(offset).map(|s| s.len() + 2).unwrap_or(1) > budget && cur.len() > 1 {
                    // start a new packet; it begins with the section type
                    packets.push(Vec::new());
                    cur_section = 0;
                    continue;
                }
                if cur_section != section {
                    cur.push(section);
                    cur_section = section;
                }
                z(cur, &name);
                cur.push(offset as u8);
                let mut closed = true;
                while offset < items.len() {
                    if cur.len() + items[offset].len() + 2 > budget && cur.len() > header_len + 2 {
                        closed = false;
                        break;
                    }
                    z(cur, &items[offset]);
                    offset += 1;
                }
                cur.push(0); // end of this item list
                if closed {
                    break;
                }
                // continue the same field in a new packet
                cur.push(0);
                packets.push(Vec::new());
                cur_section = 0;
            }
        }
        packets.last_mut().unwrap().push(0);
        packets
    }

    pub fn datagrams(&self) -> Vec<Vec<u8>> {
        let payloads = self.payloads();
        let n = payloads.len();
        payloads
            .into_iter()
            .enumerate()
            .map(|(i, p)| {
                let mut d = vec![0x00, 0x00, 0x00, 0x00, 0x01];
                d.extend_from_slice(b"splitnum\0");
                d.push((i as u8) | if i + 1 == n { 0x80 } else { 0 });
                d.push(if i == 0 { 0 } else { 1 });
                d.extend_from_slice(&p);
                d
            })
            .collect()
    }

    pub fn expected_vars(&self) -> HashMap<String, String> { self.pairs().into_iter().collect() }

    pub fn expected(&self) -> three::Response {
        let listed = self.players.len() as u32;
        three::Response {
            name: self.hostname.clone(),
            map: self.mapname.clone(),
            has_password: password_value(&self.password),
            game_mode: self.gametype.clone(),
            game_version: self.gamever.clone(),
            players_maximum: self.maxplayers,
            players_online: match self.numplayers {
                None => listed,
                Some(r) => r.max(listed),
            },
            players_minimum: self.minplayers,
            players: self
                .players
                .iter()
                .map(|p| {
                    three::Player {
                        name: p.name.clone(),
                        score: p.score,
                        ping: p.ping,
                        team: p.team,
                        deaths: p.deaths,
                        skill: p.skill,
                    }
                })
                .collect(),
            teams: self
                .teams
                .iter()
                .map(|(n, s)| {
                    three::Team {
                        name: n.clone(),
                        score: *s,
                    }
                })
                .collect(),
            tournament: self
                .tournament
                .as_ref()
                .map(|t| t.to_lowercase() == "true")
                .unwrap_or(true),
            unused_entries: self.extras.iter().cloned().collect(),
        }
    }
}

/// GameSpy 3 server: handshake with challenge, then the data packets in `order`.
pub struct Gs3Server {
    pub challenge: i32,
    pub payload: [u8; 4],
    pub datagrams: Vec<Vec<u8>>,
    pub handshakes: usize,
    pub data_requests: usize,
    pub bad_requests: usize,
}

impl Gs3Server {
    pub fn new(challenge: i32, payload: [u8; 4], datagrams: Vec<Vec<u8>>) -> Self {
        Self {
            challenge,
            payload,
            datagrams,
            handshakes: 0,
            data_requests: 0,
            bad_requests: 0,
        }
    }
}

impl Responder for Gs3Server {
    fn on_send(&mut self, proto: Proto, _peer: &SocketAddr, _nth: usize, data: &[u8], out: &mut Outbox) {
        if proto != Proto::Udp {
            return;
        }
        if data == GS3_HANDSHAKE {
            self.handshakes += 1;
            out.datagram(gs3_handshake_reply(self.challenge));
        } else if data == gs3_data_request(self.challenge, self.payload).as_slice() {
            self.data_requests += 1;
            for d in &self.datagrams {
                out.datagram(d.clone());
            }
        } else {
            self.bad_requests += 1;
        }
    }
}
