//! Eco: `/frontpage` JSON model and a loopback HTTP/1.1 server (Eco bypasses the socket seam: it uses ureq).

use gamedig::games::eco;
use proptest::prelude::*;
use serde::{Deserialize, Serialize};
use std::collections::HashMap;
use std::io::{Read, Write};
use std::net::{TcpListener, TcpStream};
use std::sync::{Arc, Mutex};

use crate::util::{dedup_by_key, text};

const ANY: &[char] = &[];

#[derive(Debug, Clone, Serialize, Deserialize, PartialEq)]
pub struct EcoState {
    pub bools: [bool; 8],
    pub u32s: [u32; 11],
    /// f64 bit patterns (finite)
    pub f64s: [u64; 4],
    pub strings: Vec<String>,
    pub names: Vec<String>,
    pub achievements: Vec<(String, String)>,
    pub order: u64,
    pub extra_member: bool,
}

fn finite_f64() -> impl Strategy<Value = u64> {
    prop_oneof![
        3 => (0f64..1e7).prop_map(|f| f.to_bits()),
        1 => (-1e12f64..1e12).prop_map(|f| f.to_bits()),
        1 => crate::util::num::<u64>().prop_map(|b| if f64::from_bits(b).is_finite() { b } else { b & 0x3FFF_FFFF_FFFF_FFFF }),
        1 => Just(0f64.to_bits()),
    ]
}

pub fn eco_state() -> impl Strategy<Value = EcoState> {
    (
        any::<[bool; 8]>(),
        // (counts are also drawn from the small range in which the name list lives: a reported count below, at and above the number of listed names)
        prop::array::uniform11(prop_oneof![3 => crate::util::num::<u32>(), 2 => 0u32 .. 120]),
        [finite_f64(), finite_f64(), finite_f64(), finite_f64()],
        // mostly short strings; sometimes long ones (descriptions run to kilobytes)
        prop_oneof![5 => prop::collection::vec(text(ANY, 30), 15), 1 => prop::collection::vec(prop_oneof![3 => text(ANY, 30).boxed(), 1 => "\\PC{800,3000}".boxed()], 15)],
        // 0-100 online players, names up to 64 characters
        prop_oneof![6 => prop::collection::vec(text(ANY, 16), 0..12), 1 => prop::collection::vec(prop_oneof![text(ANY, 64).boxed(), "\\PC{30,64}".boxed()], 40..101)],
        prop_oneof![6 => prop::collection::vec((text(ANY, 12), text(ANY, 20)), 0..6), 1 => prop::collection::vec((text(ANY, 24), text(ANY, 200)), 6..40)],
        crate::util::num::<u64>(),
        any::<bool>(),
    )
        .prop_map(|(bools, u32s, f64s, strings, names, achievements, order, extra_member)| {
            EcoState {
                bools,
                u32s,
                f64s,
                strings,
                names,
                achievements: dedup_by_key(achievements),
                order,
                extra_member,
            }
        })
}

fn js(s: &str) -> String { serde_json::to_string(s).unwrap() }

fn f(bits: u64) -> f64 { f64::from_bits(bits) }

impl EcoState {
    /// (wire member name, JSON text), in the order of the Eco web API.
    pub fn members(&self) -> Vec<(&'static str, String)> {
        let b = &self.bools;
        let u = &self.u32s;
        let s = &self.strings;
        let fl = |x: u64| serde_json::to_string(&f(x)).unwrap();
        vec![
            ("External", b[0].to_string()),
            ("GamePort", u[0].to_string()),
            ("WebPort", u[1].to_string()),
            ("IsLAN", b[1].to_string()),
            ("Description", js(&s[0])),
            ("DetailedDescription", js(&s[1])),
            ("Category", js(&s[2])),
            ("OnlinePlayers", u[2].to_string()),
            ("TotalPlayers", u[3].to_string()),
            ("OnlinePlayersNames", format!("[{}]", self.names.iter().map(|n| js(n)).collect::<Vec<_>>().join(","))),
            ("AdminOnline", b[2].to_string()),
            ("TimeSinceStart", fl(self.f64s[0])),
            ("TimeLeft", fl(self.f64s[1])),
            ("Animals", u[4].to_string()),
            ("Plants", u[5].to_string()),
            ("Laws", u[6].to_string()),
            ("WorldSize", js(&s[3])),
            ("Version", js(&s[4])),
            ("EconomyDesc", js(&s[5])),
            ("SkillSpecializationSetting", js(&s[6])),
            ("Language", js(&s[7])),
            ("HasPassword", b[3].to_string()),
            ("HasMeteor", b[4].to_string()),
            ("DistributionStationItems", js(&s[8])),
            ("Playtimes", js(&s[9])),
            ("DiscordAddress", js(&s[10])),
            ("IsPaused", b[5].to_string()),
            ("ActiveAndOnlinePlayers", u[7].to_string()),
            ("PeakActivePlayers", u[8].to_string()),
            ("MaxActivePlayers", u[9].to_string()),
            ("ShelfLifeMultiplier", fl(self.f64s[2])),
            ("ExhaustionAfterHours", fl(self.f64s[3])),
            ("IsLimitingHours", b[6].to_string()),
            (
                "ServerAchievementsDict",
                format!("{{{}}}", self.achievements.iter().map(|(k, v)| format!("{}:{}", js(k), js(v))).collect::<Vec<_>>().join(",")),
            ),
            ("RelayAddress", js(&s[11])),
            ("Access", js(&s[12])),
            ("JoinUrl", js(&s[13])),
        ]
    }

    pub fn body(&self) -> String {
        let mut m = self.members();
        let mut seed = self.order;
        for i in (1 .. m.len()).rev() {
            seed = seed.wrapping_mul(6364136223846793005).wrapping_add(1442695040888963407);
            let j = (seed >> 33) as usize % (i + 1);
            m.swap(i, j);
        }
        let mut parts: Vec<String> = m.iter().map(|(k, v)| format!("{}:{}", js(k), v)).collect();
        if self.extra_member {
            parts.insert(parts.len() / 2, "\"SomethingNew\":{\"a\":[1,2,3]}".to_string());
        }
        format!("{{\"Info\":{{{}}}}}", parts.join(","))
    }

    pub fn expected(&self) -> eco::Response {
        let b = &self.bools;
        let u = &self.u32s;
        let s = &self.strings;
        eco::Response {
            external: b[0],
            port: u[0],
            query_port: u[1],
            is_lan: b[1],
            description: s[0].clone(),
            description_detailed: s[1].clone(),
            description_economy: s[5].clone(),
            category: s[2].clone(),
            players_online: u[2],
            players_maximum: u[3],
            players: self.names.iter().map(|n| eco::Player { name: n.clone() }).collect(),
            admin_online: b[2],
            time_since_start: f(self.f64s[0]),
            time_left: f(self.f64s[1]),
            animals: u[4],
            plants: u[5],
            laws: u[6],
            world_size: s[3].clone(),
            game_version: s[4].clone(),
            skill_specialization_setting: s[6].clone(),
            language: s[7].clone(),
            has_password: b[3],
            has_meteor: b[4],
            distribution_station_items: s[8].clone(),
            playtimes: s[9].clone(),
            discord_address: s[10].clone(),
            is_paused: b[5],
            active_and_online_players: u[7],
            peak_active_players: u[8],
            max_active_players: u[9],
            shelf_life_multiplier: f(self.f64s[2]),
            exhaustion_after_hours: f(self.f64s[3]),
            is_limiting_hours: b[6],
            server_achievements_dict: self.achievements.iter().cloned().collect::<HashMap<_, _>>(),
            relay_address: s[11].clone(),
            access: s[12].clone(),
            connect: s[13].clone(),
        }
    }
}

// ---------------------------------------------------------------------------------
// loopback HTTP server (one per worker thread, lives for the process)

#[derive(Default)]
pub struct HttpShared {
    /// raw bytes to send for the next request (status line, headers, body)
    pub response: Vec<u8>,
    /// close the connection without answering
    pub drop_connection: bool,
    /// requests received since the last reset: (request line, headers)
    pub requests: Vec<(String, Vec<(String, String)>)>,
}

pub struct HttpServer {
    pub port: u16,
    pub shared: Arc<Mutex<HttpShared>>,
}

fn handle(mut stream: TcpStream, shared: &Arc<Mutex<HttpShared>>) {
    let _ = stream.set_read_timeout(Some(std::time::Duration::from_secs(5)));
    let mut buf = Vec::new();
    let mut tmp = [0u8; 2048];
    loop {
        match stream.read(&mut tmp) {
            Ok(0) => break,
            Ok(n) => {
                buf.extend_from_slice(&tmp[.. n]);
                if buf.windows(4).any(|w| w == b"\r\n\r\n") || buf.len() > 65536 {
                    break;
                }
            }
            Err(_) => break,
        }
    }
    let text = String::from_utf8_lossy(&buf).to_string();
    let mut lines = text.split("\r\n");
    let request_line = lines.next().unwrap_or("").to_string();
    let headers: Vec<(String, String)> = lines
        .take_while(|l| !l.is_empty())
        .filter_map(|l| l.split_once(':').map(|(k, v)| (k.trim().to_ascii_lowercase(), v.trim().to_string())))
        .collect();
    let (resp, drop_it) = {
        let mut g = shared.lock().unwrap();
        g.requests.push((request_line, headers));
        (g.response.clone(), g.drop_connection)
    };
    if !drop_it {
        let _ = stream.write_all(&resp);
        let _ = stream.flush();
    }
    let _ = stream.shutdown(std::net::Shutdown::Both);
}

impl HttpServer {
    pub fn start() -> Option<Self> { Self::start_on(std::net::IpAddr::V4(std::net::Ipv4Addr::LOCALHOST)) }

    pub fn start_on(ip: std::net::IpAddr) -> Option<Self> {
        let listener = TcpListener::bind(std::net::SocketAddr::new(ip, 0)).ok()?;
        let port = listener.local_addr().ok()?.port();
        let shared: Arc<Mutex<HttpShared>> = Arc::new(Mutex::new(HttpShared::default()));
        let sh = shared.clone();
        std::thread::Builder::new()
            .name("gdv-http".into())
            .spawn(move || {
                for stream in listener.incoming().flatten() {
                    handle(stream, &sh);
                }
            })
            .ok()?;
        Some(Self { port, shared })
    }

    pub fn set_json(&self, body: &str) {
        let mut g = self.shared.lock().unwrap();
        g.requests.clear();
        g.drop_connection = false;
        g.response = format!(
            "HTTP/1.1 200 OK\r\nContent-Type: application/json; charset=utf-8\r\nContent-Length: {}\r\nConnection: close\r\n\r\n{}",
            body.len(),
            body
        )
        .into_bytes();
    }

    /// As `set_json`, with the body framed in one of the three ways HTTP/1.1 allows: 0 = Content-Length, 1 = chunked transfer
    /// coding (chunk sizes derived from `salt`), 2 = neither (the body ends when the server closes the connection).
    pub fn set_json_framed(&self, body: &str, framing: u8, salt: u64) {
        let head = "HTTP/1.1 200 OK\r\nContent-Type: application/json; charset=utf-8\r\nConnection: close\r\n";
        let raw = match framing % 3 {
            0 => format!("{head}Content-Length: {}\r\n\r\n{}", body.len(), body).into_bytes(),
            1 => {
                let mut out = format!("{head}Transfer-Encoding: chunked\r\n\r\n").into_bytes();
                let bytes = body.as_bytes();
                let (mut i, mut s) = (0usize, salt | 1);
                while i < bytes.len() {
                    s = s.wrapping_mul(6364136223846793005).wrapping_add(1442695040888963407);
                    let n = match (s >> 60) % 4 { 0 => 1, 1 => 17, 2 => 1024, _ => 4096 }.min(bytes.len() - i);
                    out.extend_from_slice(format!("{n:x}\r\n").as_bytes());
                    out.extend_from_slice(&bytes[i .. i + n]);
                    out.extend_from_slice(b"\r\n");
                    i += n;
                }
                out.extend_from_slice(b"0\r\n\r\n");
                out
            }
            _ => format!("{head}\r\n{body}").into_bytes(),
        };
        self.set_raw(raw, false);
    }

    pub fn set_raw(&self, raw: Vec<u8>, drop_connection: bool) {
        let mut g = self.shared.lock().unwrap();
        g.requests.clear();
        g.drop_connection = drop_connection;
        g.response = raw;
    }

    pub fn requests(&self) -> Vec<(String, Vec<(String, String)>)> { self.shared.lock().unwrap().requests.clone() }
}

thread_local! {
    static SERVER: std::cell::RefCell<Option<Option<std::rc::Rc<HttpServer>>>> = const { std::cell::RefCell::new(None) };
}

thread_local! {
    static SERVER6: std::cell::RefCell<Option<Option<std::rc::Rc<HttpServer>>>> = const { std::cell::RefCell::new(None) };
}

/// The calling thread's HTTP server on the IPv6 loopback address.
pub fn thread_server_v6() -> Option<std::rc::Rc<HttpServer>> {
    SERVER6.with(|s| {
        let mut g = s.borrow_mut();
        if g.is_none() {
            *g = Some(HttpServer::start_on(std::net::IpAddr::V6(std::net::Ipv6Addr::LOCALHOST)).map(std::rc::Rc::new));
        }
        g.as_ref().unwrap().clone()
    })
}

/// The calling thread's loopback HTTP server.
pub fn thread_server() -> Option<std::rc::Rc<HttpServer>> {
    SERVER.with(|s| {
        let mut g = s.borrow_mut();
        if g.is_none() {
            *g = Some(HttpServer::start().map(std::rc::Rc::new));
        }
        g.as_ref().unwrap().clone()
    })
}
