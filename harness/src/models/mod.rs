pub mod quake;
pub mod valve;
