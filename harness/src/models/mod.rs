pub mod quake;
