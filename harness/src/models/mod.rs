pub mod quake;
pub mod valve;
pub mod gamespy;
