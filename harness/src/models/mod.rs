pub mod quake;
pub mod valve;
pub mod gamespy;
pub mod unreal2;
pub mod minecraft;
pub mod misc;
pub mod eco;
pub mod master;
