//! Registry of public query entry points, callable uniformly.

use gamedig::games::{battalion1944, ffow, jc2m, mindustry, minecraft, savage2, theship};
use gamedig::protocols::types::{ExtraRequestSettings, GatherToggle, TimeoutSettings};
use gamedig::protocols::{gamespy, quake, unreal2, valve, Protocol};
use gamedig::valve_master_server::{Filter, Region, SearchFilters, ValveMasterServer};
use gamedig::{GDResult, GAMES};
use serde::{Deserialize, Serialize};
use std::net::{IpAddr, SocketAddr};
use std::time::Duration;

use crate::models::valve::EngineSel;
use crate::registry::{module_for, ModuleFn};

#[derive(Debug, Clone, Serialize, Deserialize, PartialEq, Eq, Hash)]
pub enum Entry {
    Valve { engine: EngineSel, players: u8, rules: u8, check: bool },
    Gs1,
    Gs1Vars,
    Gs2,
    Gs3,
    Gs3Vars,
    Quake(u8),
    Unreal2 { players: u8, rules: u8 },
    McAuto,
    McJava,
    McBedrock,
    McLegacy,
    McLegacySpecific(u8),
    Ffow,
    Savage2,
    Jc2m,
    Mindustry,
    TheShip,
    Battalion,
    MasterSpecific,
    MasterQuery,
    /// definition-driven dispatch, with optional gather toggles as extra settings
    Generic { game: String, extra: Option<(u8, u8, bool)> },
    /// the game's dedicated module (`games::<id>::query`)
    Module { game: String },
}

#[derive(Debug, Clone, Copy, PartialEq, Eq, Hash)]
pub enum Family {
    Valve(EngineSel),
    Gs1,
    Gs2,
    Gs3,
    Quake(u8),
    Unreal2,
    McAuto,
    McJava,
    McBedrock,
    McLegacy(u8),
    McLegacyAuto,
    Ffow,
    Savage2,
    Jc2m,
    Mindustry,
    Master,
    /// HTTP, not reachable through the socket seam
    Http,
}

pub fn toggle(t: u8) -> GatherToggle {
    match t {
        0 => GatherToggle::Skip,
        1 => GatherToggle::Try,
        _ => GatherToggle::Enforce,
    }
}

fn engine_sel(e: &valve::Engine) -> EngineSel {
    match e {
        valve::Engine::GoldSrc(f) => EngineSel::GoldSrc(*f),
        valve::Engine::Source(None) => EngineSel::SourceNone,
        valve::Engine::Source(Some((2400, None))) => EngineSel::Ship,
        valve::Engine::Source(Some((240, None))) => EngineSel::Css,
        valve::Engine::Source(Some((632_360, None))) => EngineSel::Ror2,
        valve::Engine::Source(Some((a, d))) => EngineSel::Source(*a, *d),
    }
}

pub fn family_of_game(id: &str) -> Option<Family> {
    use gamedig::protocols::types::ProprietaryProtocol as P;
    let g = GAMES.get(id)?;
    Some(match &g.protocol {
        Protocol::Valve(e) => Family::Valve(engine_sel(e)),
        Protocol::Gamespy(gamespy::GameSpyVersion::One) => Family::Gs1,
        Protocol::Gamespy(gamespy::GameSpyVersion::Two) => Family::Gs2,
        Protocol::Gamespy(gamespy::GameSpyVersion::Three) => Family::Gs3,
        Protocol::Quake(quake::QuakeVersion::One) => Family::Quake(1),
        Protocol::Quake(quake::QuakeVersion::Two) => Family::Quake(2),
        Protocol::Quake(quake::QuakeVersion::Three) => Family::Quake(3),
        Protocol::Unreal2 => Family::Unreal2,
        Protocol::PROPRIETARY(p) => {
            match p {
                P::TheShip => Family::Valve(EngineSel::Ship),
                P::Minecraft(None) => Family::McAuto,
                P::Minecraft(Some(minecraft::Server::Java)) => Family::McJava,
                P::Minecraft(Some(minecraft::Server::Bedrock)) => Family::McBedrock,
                P::Minecraft(Some(minecraft::Server::Legacy(g))) => {
                    Family::McLegacy(match g {
                        minecraft::LegacyGroup::V1_6 => 0,
                        minecraft::LegacyGroup::V1_4 => 1,
                        minecraft::LegacyGroup::VB1_8 => 2,
                    })
                }
                P::FFOW => Family::Ffow,
                P::JC2M => Family::Jc2m,
                P::Savage2 => Family::Savage2,
                P::Eco => Family::Http,
                P::Mindustry => Family::Mindustry,
            }
        }
    })
}

pub fn scripted_game_ids() -> Vec<&'static str> {
    let mut v: Vec<&'static str> = GAMES.keys().copied().filter(|id| family_of_game(id) != Some(Family::Http)).collect();
    v.sort();
    v
}

pub fn timeout(retries: usize) -> Option<TimeoutSettings> {
    TimeoutSettings::new(Some(Duration::from_secs(1)), Some(Duration::from_secs(1)), Some(Duration::from_secs(1)), retries).ok()
}

pub fn legacy_group(g: u8) -> minecraft::LegacyGroup {
    match g {
        0 => minecraft::LegacyGroup::V1_6,
        1 => minecraft::LegacyGroup::V1_4,
        _ => minecraft::LegacyGroup::VB1_8,
    }
}

fn unit<T: serde::Serialize>(r: GDResult<T>) -> GDResult<serde_json::Value> {
    r.map(|v| {
        let mut j = serde_json::to_value(&v).unwrap_or(serde_json::Value::Null);
        crate::util::normalise_sets(&mut j);
        j
    })
}

impl Entry {
    pub fn family(&self) -> Family {
        match self {
            Entry::Valve { engine, .. } => Family::Valve(*engine),
            Entry::Gs1 | Entry::Gs1Vars => Family::Gs1,
            Entry::Gs2 => Family::Gs2,
            Entry::Gs3 | Entry::Gs3Vars => Family::Gs3,
            Entry::Quake(v) => Family::Quake(*v),
            Entry::Unreal2 { .. } => Family::Unreal2,
            Entry::McAuto => Family::McAuto,
            Entry::McJava => Family::McJava,
            Entry::McBedrock => Family::McBedrock,
            Entry::McLegacy => Family::McLegacyAuto,
            Entry::McLegacySpecific(g) => Family::McLegacy(*g),
            Entry::Ffow => Family::Ffow,
            Entry::Savage2 => Family::Savage2,
            Entry::Jc2m => Family::Jc2m,
            Entry::Mindustry => Family::Mindustry,
            Entry::TheShip => Family::Valve(EngineSel::Ship),
            Entry::Battalion => Family::Valve(EngineSel::Source(489_940, None)),
            Entry::MasterSpecific | Entry::MasterQuery => Family::Master,
            Entry::Generic { game, .. } | Entry::Module { game } => family_of_game(game).unwrap_or(Family::Http),
        }
    }

    /// Short, stable name used in violation signatures (protocol function, not the game id).
    pub fn sig_name(&self) -> String {
        match self {
            Entry::Valve { .. } => "valve::query".into(),
            Entry::Gs1 => "gamespy::one::query".into(),
            Entry::Gs1Vars => "gamespy::one::query_vars".into(),
            Entry::Gs2 => "gamespy::two::query".into(),
            Entry::Gs3 => "gamespy::three::query".into(),
            Entry::Gs3Vars => "gamespy::three::query_vars".into(),
            Entry::Quake(v) => format!("quake::{}::query", ["one", "two", "three"][(*v as usize - 1).min(2)]),
            Entry::Unreal2 { .. } => "unreal2::query".into(),
            Entry::McAuto => "minecraft::query".into(),
            Entry::McJava => "minecraft::query_java".into(),
            Entry::McBedrock => "minecraft::query_bedrock".into(),
            Entry::McLegacy => "minecraft::query_legacy".into(),
            Entry::McLegacySpecific(_) => "minecraft::query_legacy_specific".into(),
            Entry::Ffow => "ffow::query".into(),
            Entry::Savage2 => "savage2::query".into(),
            Entry::Jc2m => "jc2m::query".into(),
            Entry::Mindustry => "mindustry::query".into(),
            Entry::TheShip => "theship::query".into(),
            Entry::Battalion => "battalion1944::query".into(),
            Entry::MasterSpecific => "valve_master_server::query_specific".into(),
            Entry::MasterQuery => "valve_master_server::query".into(),
            Entry::Generic { .. } => format!("games::query[{:?}]", self.family()),
            Entry::Module { .. } => format!("games::<module>::query[{:?}]", self.family()),
        }
    }

    pub fn label(&self) -> String {
        match self {
            Entry::Generic { .. } => "generic-dispatch".into(),
            Entry::Module { .. } => "game-module".into(),
            other => other.sig_name(),
        }
    }

    /// Call the entry point, discarding the value (C01/C13 judge totality only).
    pub fn call(&self, ip: &IpAddr, port: u16, retries: usize) -> GDResult<()> { self.call_json(ip, port, retries).map(|_| ()) }

    /// Call the entry point; the response is returned in its JSON form.
    pub fn call_json(&self, ip: &IpAddr, port: u16, retries: usize) -> GDResult<serde_json::Value> { self.call_json_opt(ip, Some(port), Some(retries)) }

    /// As `call_json`; `port` None = let the entry point use its default (only meaningful for Generic and Module),
    /// `retries` None = pass no timeout settings at all.
    pub fn call_json_opt(&self, ip: &IpAddr, port_opt: Option<u16>, retries: Option<usize>) -> GDResult<serde_json::Value> {
        self.call_full(ip, port_opt, retries.and_then(timeout))
    }

    /// The most general form: optional port, explicit timeout settings.
    pub fn call_full(&self, ip: &IpAddr, port_opt: Option<u16>, t: Option<TimeoutSettings>) -> GDResult<serde_json::Value> {
        let port = port_opt.unwrap_or(0);
        let addr = SocketAddr::new(*ip, port);
        match self {
            Entry::Valve { engine, players, rules, check } => {
                let g = valve::GatheringSettings {
                    players: toggle(*players),
                    rules: toggle(*rules),
                    check_app_id: *check,
                };
                unit(valve::query(&addr, engine.engine(), Some(g), t))
            }
            Entry::Gs1 => unit(gamespy::one::query(&addr, t)),
            Entry::Gs1Vars => unit(gamespy::one::query_vars(&addr, t)),
            Entry::Gs2 => unit(gamespy::two::query(&addr, t)),
            Entry::Gs3 => unit(gamespy::three::query(&addr, t)),
            Entry::Gs3Vars => unit(gamespy::three::query_vars(&addr, t)),
            Entry::Quake(1) => unit(quake::one::query(&addr, t)),
            Entry::Quake(2) => unit(quake::two::query(&addr, t)),
            Entry::Quake(_) => unit(quake::three::query(&addr, t)),
            Entry::Unreal2 { players, rules } => {
                let g = unreal2::GatheringSettings {
                    players: toggle(*players),
                    mutators_and_rules: toggle(*rules),
                };
                unit(unreal2::query(&addr, &g, t))
            }
            Entry::McAuto => unit(minecraft::protocol::query(&addr, t, None)),
            Entry::McJava => unit(minecraft::protocol::query_java(&addr, t, None)),
            Entry::McBedrock => unit(minecraft::protocol::query_bedrock(&addr, t)),
            Entry::McLegacy => unit(minecraft::protocol::query_legacy(&addr, t)),
            Entry::McLegacySpecific(g) => unit(minecraft::protocol::query_legacy_specific(legacy_group(*g), &addr, t)),
            Entry::Ffow => unit(ffow::query_with_timeout(ip, Some(port), t)),
            Entry::Savage2 => unit(savage2::query_with_timeout(ip, Some(port), t)),
            Entry::Jc2m => unit(jc2m::query_with_timeout(ip, Some(port), t)),
            Entry::Mindustry => unit(mindustry::query(ip, Some(port), &t)),
            Entry::TheShip => unit(theship::query_with_timeout(ip, Some(port), t)),
            Entry::Battalion => unit(battalion1944::query(ip, Some(port))),
            Entry::MasterSpecific => {
                let mut m = ValveMasterServer::new(&addr)?;
                unit(m.query_specific(Region::Europe, &None, "0.0.0.0", 0))
            }
            Entry::MasterQuery => {
                let mut m = ValveMasterServer::new(&addr)?;
                let f = SearchFilters::new().insert(Filter::RunsAppID(440)).insert_nor(Filter::IsEmpty(true));
                unit(m.query(Region::Others, Some(f)))
            }
            Entry::Generic { game, extra } => {
                let g = GAMES
                    .get(game.as_str())
                    .ok_or_else(|| gamedig::GDErrorKind::InvalidInput.context("unknown game"))?;
                let extra = extra.map(|(p, r, c)| {
                    ExtraRequestSettings::default()
                        .set_gather_players(toggle(p))
                        .set_gather_rules(toggle(r))
                        .set_check_app_id(c)
                });
                gamedig::query_with_timeout_and_extra_settings(g, ip, port_opt, t, extra)
                    .map(|r| {
                        let mut j = serde_json::to_value(r.as_original()).unwrap_or(serde_json::Value::Null);
                        crate::util::normalise_sets(&mut j);
                        j
                    })
            }
            Entry::Module { game } => {
                let m = module_for(game).ok_or_else(|| gamedig::GDErrorKind::InvalidInput.context("no module"))?;
                match m.f {
                    ModuleFn::Valve(f) => unit(f(ip, port_opt)),
                    ModuleFn::Gs1(f) => unit(f(ip, port_opt)),
                    ModuleFn::Gs2(f) => unit(f(ip, port_opt)),
                    ModuleFn::Gs3(f) => unit(f(ip, port_opt)),
                    ModuleFn::Quake1(f) => unit(f(ip, port_opt)),
                    ModuleFn::Quake23(f) => unit(f(ip, port_opt)),
                    ModuleFn::Unreal2(f) => unit(f(ip, port_opt)),
                    ModuleFn::Special => {
                        match game.as_str() {
                            "minecraft" => unit(minecraft::query(ip, port_opt)),
                            "minecraftjava" => unit(minecraft::query_java(ip, port_opt, None)),
                            "minecraftbedrock" | "minecraftpocket" => unit(minecraft::query_bedrock(ip, port_opt)),
                            "minecraftlegacy16" => unit(minecraft::query_legacy_specific(legacy_group(0), ip, port_opt)),
                            "minecraftlegacy14" => unit(minecraft::query_legacy_specific(legacy_group(1), ip, port_opt)),
                            "minecraftlegacyb18" => unit(minecraft::query_legacy_specific(legacy_group(2), ip, port_opt)),
                            "battalion1944" => unit(battalion1944::query(ip, port_opt)),
                            "ffow" => unit(ffow::query(ip, port_opt)),
                            "savage2" => unit(savage2::query(ip, port_opt)),
                            "theship" => unit(theship::query(ip, port_opt)),
                            "jc2m" => unit(jc2m::query(ip, port_opt)),
                            "mindustry" => unit(mindustry::query(ip, port_opt, &None)),
                            _ => Err(gamedig::GDErrorKind::InvalidInput.context("not scripted")),
                        }
                    }
                }
            }
        }
    }
}
