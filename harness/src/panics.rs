//! Panic capture: a global hook that records the panic of the current thread
//! instead of printing it, plus `catch` which runs a closure and returns the
//! recorded panic.

use std::cell::RefCell;
use std::panic::{catch_unwind, AssertUnwindSafe};
use std::sync::Once;

#[derive(Debug, Clone, serde::Serialize, serde::Deserialize, PartialEq)]
pub struct PanicRecord {
    pub message: String,
    pub file: String,
    pub line: u32,
    /// innermost gamedig frame (function name), when the location is outside
    /// the repository sources
    pub frame: Option<String>,
}

impl PanicRecord {
    /// Stable "where": repo-relative file (no line number) or gamedig frame.
    pub fn site(&self) -> String {
        if let Some(i) = self.file.find("crates/") {
            return self.file[i ..].to_string();
        }
        if self.file.starts_with("src/") {
            return self.file.clone();
        }
        match &self.frame {
            Some(f) => f.clone(),
            None => self.file.clone(),
        }
    }

    /// Message with digits collapsed so that values do not re-key a finding.
    pub fn class(&self) -> String { normalise(&self.message) }
}

pub fn normalise(msg: &str) -> String {
    let mut out = String::new();
    let mut last_hash = false;
    for c in msg.chars() {
        if c.is_ascii_digit() {
            if !last_hash {
                out.push('#');
                last_hash = true;
            }
        } else {
            out.push(c);
            last_hash = false;
        }
        if out.len() > 100 {
            break;
        }
    }
    out
}

thread_local! {
    static LAST: RefCell<Option<PanicRecord>> = const { RefCell::new(None) };
    static QUIET: std::cell::Cell<bool> = const { std::cell::Cell::new(false) };
}

static INIT: Once = Once::new();
static FRAMES: std::sync::Mutex<std::collections::BTreeMap<String, Option<String>>> =
    std::sync::Mutex::new(std::collections::BTreeMap::new());

fn gamedig_frame() -> Option<String> {
    let bt = std::backtrace::Backtrace::force_capture();
    let s = format!("{bt}");
    for line in s.lines() {
        let l = line.trim();
        // lines look like "12: gamedig::buffer::Buffer<B>::read"
        if let Some(pos) = l.find(": ") {
            let f = &l[pos + 2 ..];
            if (f.starts_with("gamedig::") || f.starts_with("<gamedig::") || f.starts_with("gamedig_id_tests::"))
                && !f.contains("verif_hook")
            {
                // strip the hash suffix
                let f = match f.rfind("::h") {
                    Some(i) if f.len() - i == 19 => &f[.. i],
                    _ => f,
                };
                return Some(f.to_string());
            }
        }
    }
    None
}

pub fn init() {
    INIT.call_once(|| {
        let default = std::panic::take_hook();
        std::panic::set_hook(Box::new(move |info| {
            let quiet = QUIET.try_with(|q| q.get()).unwrap_or(false);
            if !quiet {
                default(info);
                return;
            }
            let message = if let Some(s) = info.payload().downcast_ref::<&str>() {
                (*s).to_string()
            } else if let Some(s) = info.payload().downcast_ref::<String>() {
                s.clone()
            } else {
                "<non-string panic payload>".to_string()
            };
            let (file, line) = info
                .location()
                .map(|l| (l.file().to_string(), l.line()))
                .unwrap_or_default();
            let in_repo = file.contains("crates/") || file.starts_with("src/");
            let frame = if in_repo {
                None
            } else {
                // symbolising a backtrace costs milliseconds: once per (location, message class)
                let key = format!("{file}:{line}:{}", normalise(&message));
                let cached = FRAMES.lock().ok().and_then(|m| m.get(&key).cloned());
                match cached {
                    Some(f) => f,
                    None => {
                        let f = gamedig_frame();
                        if let Ok(mut m) = FRAMES.lock() {
                            m.insert(key, f.clone());
                        }
                        f
                    }
                }
            };
            let _ = LAST.try_with(|l| {
                *l.borrow_mut() = Some(PanicRecord {
                    message,
                    file,
                    line,
                    frame,
                })
            });
        }));
    });
}

/// Run `f`, catching a panic. Output of the panic is suppressed.
pub fn catch<T>(f: impl FnOnce() -> T) -> Result<T, PanicRecord> {
    init();
    LAST.with(|l| *l.borrow_mut() = None);
    let prev = QUIET.with(|q| q.replace(true));
    let r = catch_unwind(AssertUnwindSafe(f));
    QUIET.with(|q| q.set(prev));
    match r {
        Ok(v) => Ok(v),
        Err(_) => {
            Err(LAST.with(|l| l.borrow_mut().take()).unwrap_or(PanicRecord {
                message: "<panic without record>".into(),
                file: String::new(),
                line: 0,
                frame: None,
            }))
        }
    }
}
