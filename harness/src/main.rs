use gdv::{alloc, props, runner};

use runner::{Opts, Tier};
use std::io::Write;
use std::os::fd::FromRawFd;
use std::path::PathBuf;

#[global_allocator]
static GLOBAL: alloc::Counting = alloc::Counting;

fn usage() -> ! {
    eprintln!("usage: gdv <ID> [--tier quick|thorough] [--seed N] [--threads N] [--replay FILE] [--verif-dir DIR]");
    std::process::exit(2);
}

fn main() {
    let args: Vec<String> = std::env::args().collect();
    if args.len() < 2 {
        usage();
    }
    let id = args[1].clone();
    if id == "fuzz-corpus" {
        // gdv fuzz-corpus <dir> <n> <seed>: byte-encoded cases from the C01 / C13 generators as the starting corpus of the fuzz targets
        let dir = PathBuf::from(args.get(2).cloned().unwrap_or_else(|| usage()));
        let n: u64 = args.get(3).and_then(|s| s.parse().ok()).unwrap_or(2000);
        let seed: u64 = args.get(4).and_then(|s| s.parse().ok()).unwrap_or(1);
        let _ = std::fs::create_dir_all(&dir);
        let (s1, s2) = (gdv::props::hostile::hcase(false), gdv::props::hostile::hcase(true));
        let mut written = 0;
        for i in 0 .. n {
            let c = if i % 2 == 0 { runner::sample_one(&s1, &format!("fuzz-corpus-{seed}"), i) } else { runner::sample_one(&s2, &format!("fuzz-corpus-{seed}"), i) };
            let bytes = gdv::props::hostile::encode_case(&c);
            if bytes.len() <= 60_000 && std::fs::write(dir.join(format!("seed-{i:06}")), &bytes).is_ok() {
                written += 1;
            }
        }
        println!("{written}");
        return;
    }
    let mut tier = match std::env::var("VERIF_TIER").ok().as_deref() {
        Some("thorough") => Tier::Thorough,
        _ => Tier::Quick,
    };
    let mut seed: u64 = std::env::var("VERIF_SEED")
        .ok()
        .and_then(|s| s.trim().parse::<i128>().ok())
        .map(|v| v as u64)
        .unwrap_or(1);
    let mut threads: usize = std::env::var("GDV_THREADS")
        .ok()
        .and_then(|s| s.parse().ok())
        .unwrap_or_else(|| std::thread::available_parallelism().map(|n| n.get()).unwrap_or(8).min(16));
    let mut replay = None;
    let mut worker = None;
    let mut worker_dir = None;
    let mut inproc = false;
    let mut verif_dir = PathBuf::from(std::env::var("GDV_VERIF_DIR").unwrap_or_else(|_| "/verif".into()));
    let mut i = 2;
    while i < args.len() {
        match args[i].as_str() {
            "--tier" => {
                i += 1;
                tier = match args.get(i).map(|s| s.as_str()) {
                    Some("quick") => Tier::Quick,
                    Some("thorough") => Tier::Thorough,
                    _ => usage(),
                };
            }
            "--seed" => {
                i += 1;
                seed = args.get(i).and_then(|s| s.parse::<i128>().ok()).map(|v| v as u64).unwrap_or_else(|| usage());
            }
            "--threads" => {
                i += 1;
                threads = args.get(i).and_then(|s| s.parse().ok()).unwrap_or_else(|| usage());
            }
            "--replay" => {
                i += 1;
                replay = Some(PathBuf::from(args.get(i).cloned().unwrap_or_else(|| usage())));
            }
            "--worker" => {
                i += 1;
                let v = args.get(i).cloned().unwrap_or_else(|| usage());
                let (a, b) = v.split_once('/').unwrap_or_else(|| usage());
                worker = Some((a.parse().unwrap_or_else(|_| usage()), b.parse().unwrap_or_else(|_| usage())));
                // an isolated worker may not take the machine down with it: a case whose memory grows without bound (a parse loop that
                // makes no progress) then ends in a failed allocation, which the supervisor records as a violation with the case as
                // replay, instead of the kernel killing whichever process is largest (3 GiB: forty times the 64 MiB allowance plus the harness)
                unsafe {
                    let lim = libc::rlimit { rlim_cur: 3 << 30, rlim_max: 3 << 30 };
                    libc::setrlimit(libc::RLIMIT_AS, &lim);
                }
            }
            "--worker-dir" => {
                i += 1;
                worker_dir = Some(PathBuf::from(args.get(i).cloned().unwrap_or_else(|| usage())));
            }
            "--inproc" => inproc = true,
            "--verif-dir" => {
                i += 1;
                verif_dir = PathBuf::from(args.get(i).cloned().unwrap_or_else(|| usage()));
            }
            _ => usage(),
        }
        i += 1;
    }

    // The library prints to stdout in places; keep our own channel and silence fd 1.
    let out = unsafe {
        let saved = libc::dup(1);
        let devnull = libc::open(b"/dev/null\0".as_ptr() as *const libc::c_char, libc::O_WRONLY);
        if saved >= 0 && devnull >= 0 {
            libc::dup2(devnull, 1);
            libc::close(devnull);
            std::fs::File::from_raw_fd(saved)
        } else {
            std::fs::File::from_raw_fd(libc::dup(2))
        }
    };

    if worker.is_some() || inproc {
        // a case may ask for absurd amounts of memory: fail fast instead of eating the machine
        unsafe {
            let lim = libc::rlimit { rlim_cur: 3 << 30, rlim_max: 3 << 30 };
            libc::setrlimit(libc::RLIMIT_AS, &lim);
        }
    }
    let mut opts = Opts {
        tier,
        seed,
        threads,
        verif_dir,
        replay,
        out,
        worker,
        worker_dir,
        inproc,
    };
    let code = props::dispatch(&id, &mut opts);
    let _ = opts.out.flush();
    std::process::exit(code);
}
