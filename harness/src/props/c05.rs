//! C05 — Quake 1/2/3 status replies yield all variables and players.

use gamedig::protocols::quake;
use proptest::prelude::*;
use std::net::SocketAddr;

use crate::models::quake::{request, state, QuakeState};
use crate::runner::{Outcome, Prop, Tier};
use crate::util::{doc_ip, expect_equal};
use crate::wire::{run_scripted, Outbox};
use gamedig::verif_hook::Proto;

static FIDELITY: std::sync::atomic::AtomicU64 = std::sync::atomic::AtomicU64::new(0);

pub struct C05;

impl Prop for C05 {
    type Case = QuakeState;

    fn id(&self) -> &'static str { "C05" }

    fn extra_evidence(&self) -> serde_json::Value {
        serde_json::json!({"traces_validated_against_impl": FIDELITY.load(std::sync::atomic::Ordering::Relaxed),
                           "traces_validated_note": "a sample of the cases is replayed over real loopback sockets with the same reference server; the result must equal the scripted-transport result"})
    }

    fn rule(&self) -> String {
        "random server states (version 1-3, variable sets with both spellings of the named keys, 0-64 player lines, quoted/bare names, \
         optional address) encoded by an independent reference encoder and served over the scripted transport; the query result must \
         equal the expected response built from the state. non-trivial = at least one player line; distinct = digest of the state"
            .into()
    }

    fn assumptions(&self) -> Vec<String> {
        vec![
            "player-line fields contain no backslash or newline; a field with a space is quoted and has no quote character inside; a bare field does not begin with a quote it does not close; the reply is one datagram of at most 16384 bytes (the largest Quake message)".into(),
            "every line, including the last, is newline-terminated; no trailing NUL".into(),
            "numeric fields fit the response types (u8 maxclients, u16/i32 frags, u16 ping)".into(),
        ]
    }

    fn random_cases(&self, tier: Tier) -> u64 { tier.pick(30_000, 1_500_000) }

    fn strategy(&self, _tier: Tier) -> BoxedStrategy<QuakeState> { state().boxed() }

    fn run(&self, st: &QuakeState) -> Outcome {
        let mut o = Outcome::new();
        o.label(format!("quake{}", st.version));
        o.label(match st.players.len() {
            0 => "players=0",
            1 ..= 3 => "players=1-3",
            4 ..= 19 => "players=4-19",
            _ => "players=20-64",
        });
        if st.players.iter().any(|p| !p.name_quoted) {
            o.label("bare-name");
        }
        if st.players.iter().any(|p| p.address.is_some()) && st.version != 1 {
            o.label("address-field");
        }
        o.nontrivial = !st.players.is_empty();
        let reply = st.encode();
        if reply.len() > crate::models::quake::MAX_REPLY {
            // larger than a Quake status message can be; outside the domain
            o.label("oversize-skipped");
            o.nontrivial = false;
            return o;
        }
        let req = request(st.version);
        let addr = SocketAddr::new(doc_ip(), 27960);
        let (req2, reply2) = (req.clone(), reply.clone());
        // (replies that do not fit the transport's default sizes are sampled more often: that is where the two transports could part)
        let sample = crate::runner::digest(&reply) % 48 == 0 || (reply.len() > 1024 && crate::runner::digest(&reply) % 8 == 0);
        let make = move || {
            let (req, reply) = (req2.clone(), reply2.clone());
            Box::new(move |proto: Proto, _peer: &SocketAddr, _nth: usize, data: &[u8], out: &mut Outbox| {
                if proto == Proto::Udp && data == req.as_slice() {
                    out.datagram(reply.clone());
                }
            }) as Box<dyn crate::wire::Responder>
        };
        let responder = move |proto: Proto, _peer: &SocketAddr, _nth: usize, data: &[u8], out: &mut Outbox| {
            if proto == Proto::Udp && data == req.as_slice() {
                out.datagram(reply.clone());
            }
        };
        let entry = format!("quake::{}::query", ["one", "two", "three"][st.version as usize - 1]);
        let f = match st.version {
            1 => {
                let run = run_scripted(Box::new(responder), || quake::one::query(&addr, None));
                if sample {
                    if let Some(real) = crate::realnet::fidelity("C05", Proto::Udp, make, &run, 1000, |a, t| quake::one::query(&a, t), &FIDELITY) {
                        o.fail(format!("C05|real sockets|C05|differs from the scripted transport|{real}"), serde_json::json!({"over_real_loopback_sockets": real, "scripted_transport": "Ok (equal to the reference value)"}));
                    }
                }
                expect_equal("C05", &entry, &run, &st.expected_one(), &["unused_entries"])
            }
            2 => {
                let run = run_scripted(Box::new(responder), || quake::two::query(&addr, None));
                if sample {
                    if let Some(real) = crate::realnet::fidelity("C05", Proto::Udp, make, &run, 1000, |a, t| quake::two::query(&a, t), &FIDELITY) {
                        o.fail(format!("C05|real sockets|C05|differs from the scripted transport|{real}"), serde_json::json!({"over_real_loopback_sockets": real, "scripted_transport": "Ok (equal to the reference value)"}));
                    }
                }
                expect_equal("C05", &entry, &run, &st.expected_two(), &["unused_entries"])
            }
            _ => {
                let run = run_scripted(Box::new(responder), || quake::three::query(&addr, None));
                if sample {
                    if let Some(real) = crate::realnet::fidelity("C05", Proto::Udp, make, &run, 1000, |a, t| quake::three::query(&a, t), &FIDELITY) {
                        o.fail(format!("C05|real sockets|C05|differs from the scripted transport|{real}"), serde_json::json!({"over_real_loopback_sockets": real, "scripted_transport": "Ok (equal to the reference value)"}));
                    }
                }
                expect_equal("C05", &entry, &run, &st.expected_two(), &["unused_entries"])
            }
        };
        if f.is_some() {
            o.failure = f;
        }
        o
    }
}
