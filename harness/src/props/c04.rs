//! C04 — GameSpy 1/2/3 replies are decoded completely.

use gamedig::protocols::gamespy::{one, three, two};
use proptest::prelude::*;
use serde::{Deserialize, Serialize};
use std::net::SocketAddr;

use crate::models::gamespy::*;
use crate::runner::{Outcome, Prop, Tier};
use crate::util::{doc_ip, expect_equal};
use crate::wire::run_scripted;

#[derive(Debug, Clone, Serialize, Deserialize)]
pub enum Case {
    One { st: Gs1State, vars_only: bool },
    Two { st: Gs2State },
    Three { st: Gs3State, vars_only: bool },
}

static FIDELITY: std::sync::atomic::AtomicU64 = std::sync::atomic::AtomicU64::new(0);

pub struct C04;

impl Prop for C04 {
    type Case = Case;

    fn id(&self) -> &'static str { "C04" }

    fn extra_evidence(&self) -> serde_json::Value {
        serde_json::json!({"traces_validated_against_impl": FIDELITY.load(std::sync::atomic::Ordering::Relaxed),
                           "traces_validated_note": "a sample of the cases is replayed over real loopback sockets with the same reference server; the result must equal the scripted-transport result"})
    }

    fn rule(&self) -> String {
        "random GameSpy 1 / 2 / 3 server states (typed variables with optional members and alternative spellings, 0-64 players with optional \
         per-player fields, 0-8 teams, extra variables that cannot collide with typed or per-player keys, reported-vs-listed player counts) are \
         encoded by independent reference encoders (GS1: multi-part with query ids and final marker; GS2: key/value block + player and team \
         tables with shuffled columns; GS3: challenge handshake + splitnum packets with fields continued across packets) and served over the \
         scripted transport; query must equal the expected response (typed fields, players, teams, unused entries == exactly the unconsumed \
         variables) and query_vars must equal exactly the sent pairs. non-trivial = >=1 player and >=1 extra variable, or more than one \
         datagram; distinct = digest of the state"
            .into()
    }

    fn assumptions(&self) -> Vec<String> {
        vec![
            "no formal specification exists (PROTOCOLS.md): the encoders follow the node-gamedig reading named there".into(),
            "GameSpy 1: player indices are contiguous from 0, a key/value pair is never split across parts, keys and values contain no backslash or NUL".into(),
            "GameSpy 2: the reply is one datagram of at most 4096 bytes; a zero-row table is `00 00` without column heads (as implemented)".into(),
            "GameSpy 3: item strings (player and team names) are non-empty; all key/values are in packet 0; a challenge of 0 means none".into(),
            "numeric text fits the response field it is parsed into; password/tournament texts are from {0,1,true,false} in either case".into(),
        ]
    }

    fn random_cases(&self, tier: Tier) -> u64 { tier.pick(45_000, 2_000_000) }

    fn strategy(&self, _tier: Tier) -> BoxedStrategy<Case> {
        prop_oneof![
            5 => (gs1_state(), prop::bool::weighted(0.15)).prop_map(|(st, vars_only)| Case::One { st, vars_only }),
            5 => gs2_state().prop_map(|st| Case::Two { st }),
            5 => (gs3_state(), prop::bool::weighted(0.15)).prop_map(|(st, vars_only)| Case::Three { st, vars_only }),
        ]
        .boxed()
    }

    fn run(&self, case: &Case) -> Outcome {
        let mut o = Outcome::new();
        let addr = SocketAddr::new(doc_ip(), 7778);
        let plabel = |n: usize| {
            match n {
                0 => "players=0",
                1 ..= 3 => "players=1-3",
                4 ..= 16 => "players=4-16",
                _ => "players=17-64",
            }
        };
        match case {
            Case::One { st, vars_only } => {
                let dgs = st.encode();
                o.label(if *vars_only { "gs1-vars" } else { "gs1" });
                o.label(format!("gs1-parts={}", dgs.len().min(8)));
                o.label(format!("gs1-{}", plabel(st.players.len())));
                o.nontrivial = (!st.players.is_empty() && !st.extras.is_empty()) || dgs.len() > 1;
                let sample = crate::runner::digest(&dgs.concat()) % 48 == 0;
                let dgs2 = dgs.clone();
                let make = move || Box::new(DatagramServer { request: GS1_REQUEST.to_vec(), reply: dgs2.clone() }) as Box<dyn crate::wire::Responder>;
                let server = DatagramServer {
                    request: GS1_REQUEST.to_vec(),
                    reply: dgs,
                };
                if *vars_only {
                    let run = run_scripted(Box::new(server), || one::query_vars(&addr, None));
                    o.failure = expect_equal("C04", "gamespy::one::query_vars", &run, &st.expected_vars(), &[]);
                    if sample && o.failure.is_none() {
                        if let Some(real) = crate::realnet::fidelity("C04 gs1 vars", gamedig::verif_hook::Proto::Udp, make, &run, 1000, |a, t| one::query_vars(&a, t), &FIDELITY) {
                            o.fail(format!("C04|real sockets|C04 gs1 vars|differs from the scripted transport|{real}"), serde_json::json!({"over_real_loopback_sockets": real, "scripted_transport": "Ok (equal to the reference value)"}));
                        }
                    }
                } else {
                    let run = run_scripted(Box::new(server), || one::query(&addr, None));
                    o.failure = expect_equal("C04", "gamespy::one::query", &run, &st.expected(), &["unused_entries"]);
                    if sample && o.failure.is_none() {
                        if let Some(real) = crate::realnet::fidelity("C04 gs1", gamedig::verif_hook::Proto::Udp, make, &run, 1000, |a, t| one::query(&a, t), &FIDELITY) {
                            o.fail(format!("C04|real sockets|C04 gs1|differs from the scripted transport|{real}"), serde_json::json!({"over_real_loopback_sockets": real, "scripted_transport": "Ok (equal to the reference value)"}));
                        }
                    }
                }
            }
            Case::Two { st } => {
                o.label("gs2");
                o.label(format!("gs2-{}", plabel(st.players.len())));
                o.label(format!("gs2-teams={}", st.teams.len().min(3)));
                o.nontrivial = !st.players.is_empty() && !st.extras.is_empty();
                let dg = st.encode();
                let sample = crate::runner::digest(&dg) % 48 == 0;
                let dg2 = dg.clone();
                let make = move || Box::new(DatagramServer { request: GS2_REQUEST.to_vec(), reply: vec![dg2.clone()] }) as Box<dyn crate::wire::Responder>;
                let server = DatagramServer {
                    request: GS2_REQUEST.to_vec(),
                    reply: vec![dg],
                };
                let run = run_scripted(Box::new(server), || two::query(&addr, None));
                o.failure = expect_equal("C04", "gamespy::two::query", &run, &st.expected(), &["unused_entries"]);
                if sample && o.failure.is_none() {
                    if let Some(real) = crate::realnet::fidelity("C04 gs2", gamedig::verif_hook::Proto::Udp, make, &run, 1000, |a, t| two::query(&a, t), &FIDELITY) {
                        o.fail(format!("C04|real sockets|C04 gs2|differs from the scripted transport|{real}"), serde_json::json!({"over_real_loopback_sockets": real, "scripted_transport": "Ok (equal to the reference value)"}));
                    }
                }
            }
            Case::Three { st, vars_only } => {
                let dgs = st.datagrams();
                o.label(if *vars_only { "gs3-vars" } else { "gs3" });
                o.label(format!("gs3-packets={}", match dgs.len() { 1 => "1", 2..=7 => "2-7", _ => "8+" }));
                o.label(format!("gs3-{}", plabel(st.players.len())));
                o.label(if st.challenge == 0 { "gs3-no-challenge" } else { "gs3-challenge" });
                o.nontrivial = (!st.players.is_empty() && !st.extras.is_empty()) || dgs.len() > 1;
                let sample = crate::runner::digest(&dgs.concat()) % 48 == 0;
                let (dgs2, challenge) = (dgs.clone(), st.challenge);
                let make = move || Box::new(Gs3Server::new(challenge, [0xFF, 0xFF, 0xFF, 0x01], dgs2.clone())) as Box<dyn crate::wire::Responder>;
                let server = Gs3Server::new(st.challenge, [0xFF, 0xFF, 0xFF, 0x01], dgs);
                if *vars_only {
                    let run = run_scripted(Box::new(server), || three::query_vars(&addr, None));
                    o.failure = expect_equal("C04", "gamespy::three::query_vars", &run, &st.expected_vars(), &[]);
                    if sample && o.failure.is_none() {
                        if let Some(real) = crate::realnet::fidelity("C04 gs3 vars", gamedig::verif_hook::Proto::Udp, make, &run, 1000, |a, t| three::query_vars(&a, t), &FIDELITY) {
                            o.fail(format!("C04|real sockets|C04 gs3 vars|differs from the scripted transport|{real}"), serde_json::json!({"over_real_loopback_sockets": real, "scripted_transport": "Ok (equal to the reference value)"}));
                        }
                    }
                } else {
                    let run = run_scripted(Box::new(server), || three::query(&addr, None));
                    o.failure = expect_equal("C04", "gamespy::three::query", &run, &st.expected(), &["unused_entries"]);
                    if sample && o.failure.is_none() {
                        if let Some(real) = crate::realnet::fidelity("C04 gs3", gamedig::verif_hook::Proto::Udp, make, &run, 1000, |a, t| three::query(&a, t), &FIDELITY) {
                            o.fail(format!("C04|real sockets|C04 gs3|differs from the scripted transport|{real}"), serde_json::json!({"over_real_loopback_sockets": real, "scripted_transport": "Ok (equal to the reference value)"}));
                        }
                    }
                }
            }
        }
        o
    }
}
