//! C20 — the game-id naming checker is total and self-consistent.

use gamedig_id_tests::{test_game_name_rules, test_single_game_rule};
use proptest::prelude::*;
use serde::{Deserialize, Serialize};
use serde_json::json;

use crate::panics;
use crate::runner::{Outcome, Prop, Tier};

#[derive(Debug, Clone, Serialize, Deserialize)]
pub enum Case {
    /// one game: name and two wrong ids to propose
    Single {
        name: String,
        wrong_a: String,
        wrong_b: String,
        features: Vec<String>,
        /// candidate ids derived from the expected ones: (operation, position, character)
        #[serde(default)]
        mutations: Vec<(u8, u16, char)>,
    },
    /// several games (totality only)
    List { games: Vec<(String, String)> },
    /// the shipped definitions table
    Table,
}

fn roman(n: u32) -> String {
    let t = [(1000, "M"), (900, "CM"), (500, "D"), (400, "CD"), (100, "C"), (90, "XC"), (50, "L"), (40, "XL"), (10, "X"), (9, "IX"), (5, "V"), (4, "IV"), (1, "I")];
    let mut n = n;
    let mut s = String::new();
    for (v, r) in t {
        while n >= v {
            s.push_str(r);
            n -= v;
        }
    }
    s
}

/// (word text, feature label)
fn word(first: bool) -> BoxedStrategy<(String, &'static str)> {
    let cap = "[A-Z][a-z]{1,8}".prop_map(|s| (s, "word"));
    let lower = prop::sample::select(vec!["of", "the", "to", "and", "vs", "in"]).prop_map(|s| (s.to_string(), "small-word"));
    let caps = "[A-Z]{2,5}".prop_map(|s| (s, "all-caps"));
    let dotted = prop::collection::vec("[A-Z]", 2..8).prop_map(|v| (v.join(".") + ".", "dotted-acronym"));
    let dotted2 = prop::collection::vec("[A-Z]", 2..8).prop_map(|v| (v.join("."), "dotted-acronym"));
    let rom = (1u32..3000).prop_map(|n| (roman(n), "roman"));
    let num = prop_oneof![(1u32..10).prop_map(|n| n.to_string()), (10u32..10000).prop_map(|n| n.to_string()), (1980u32..2031).prop_map(|n| n.to_string())].prop_map(|s| (s, "number"));
    let mixed = prop_oneof!["[0-9]{1,2}[A-Z][a-z]{0,4}", "[A-Z][a-z]{1,4}[0-9]{1,3}", "[A-Z][a-z]{1,3}[0-9][A-Z][a-z]{1,3}"].prop_map(|s| (s, "alnum-mix"));
    let hyph = prop_oneof![
        ("[A-Z][a-z]{0,5}", "[A-Z][a-z]{1,5}").prop_map(|(a, b)| format!("{a}-{b}")),
        Just("D-Day".to_string()),
        Just("Half-Life".to_string()),
    ]
    .prop_map(|s| (s, "hyphenated"));
    let numhyph = prop_oneof![
        ("[0-9]{2}", "[0-9]{2}").prop_map(|(a, b)| format!("{a}-{b}")),
        ("[0-9]{2}", "[0-9]{2}").prop_map(|(a, b)| format!("'{a}-'{b}")),
        ("[0-9]{2}", "[0-9]{2}", "[0-9]{2}").prop_map(|(a, b, c)| format!("{a}-{b}-{c}")),
    ]
    .prop_map(|s| (s, "number-hyphen-number"));
    let numtext = prop_oneof![("[0-9]{1,2}", "[A-Z][a-z]{0,5}").prop_map(|(a, b)| format!("{a}-{b}")), Just("3-D".to_string()), Just("2-Player".to_string())].prop_map(|s| (s, "number-hyphen-text"));
    let punct = prop_oneof![
        "[A-Z][a-z]{1,6}:".prop_map(|s| s),
        "[A-Z][a-z]{1,6}'s".prop_map(|s| s),
        Just("&".to_string()),
        "[A-Z][a-z]{1,4}\\.".prop_map(|s| s),
        "[A-Z][a-z]{1,6}!".prop_map(|s| s),
        "[A-Z][a-z]{1,6},".prop_map(|s| s),
    ]
    .prop_map(|s| (s, "punctuation"));
    // hyphenated compounds of arbitrary components (words, all-caps, numbers, letter-digit mixes, apostrophe years)
    let comp = || prop_oneof![3 => "[A-Z][a-z]{0,5}", 1 => "[A-Z]{1,3}", 2 => "[0-9]{1,4}", 2 => "[A-Z][a-z]{0,3}[0-9]{1,3}", 1 => "[0-9]{1,2}[A-Z][a-z]{0,3}", 1 => "'[0-9]{2}", 1 => "[A-Z][0-9][A-Z]"];
    let compound = prop::collection::vec(comp(), 2 .. 4).prop_map(|v| (v.join("-"), "compound"));
    if first {
        prop_oneof![8 => cap, 2 => caps, 1 => dotted, 2 => compound.clone(), 1 => dotted2, 2 => num, 1 => mixed, 1 => hyph, 1 => numhyph, 1 => numtext, 1 => punct].boxed()
    } else {
        prop_oneof![8 => cap, 2 => lower, 2 => caps, 1 => dotted, 2 => compound, 2 => rom, 3 => num, 1 => mixed, 2 => hyph, 1 => numhyph, 1 => numtext, 2 => punct].boxed()
    }
}

fn name() -> impl Strategy<Value = (String, Vec<String>)> {
    (
        word(true),
        prop::collection::vec(word(false), 0..5),
        prop::option::of(prop_oneof![
            (1980u32..2031).prop_map(|y| (format!("({y})"), "year-suffix")),
            prop::sample::select(vec!["(java)", "(bedrock)", "(legacy 1.6)", "(Remastered)", "(Beta)"]).prop_map(|s| (s.to_string(), "edition-suffix")),
        ]),
        prop::option::of((word(true), prop::collection::vec(word(false), 0..2))),
    )
        .prop_map(|(w0, rest, suffix, modpart)| {
            let mut feats: Vec<String> = vec![w0.1.to_string()];
            let mut s = w0.0;
            for (w, f) in rest {
                s.push(' ');
                s.push_str(&w);
                feats.push(f.to_string());
            }
            if let Some((m0, mrest)) = modpart {
                s.push_str(" - ");
                s.push_str(&m0.0);
                feats.push("mod-part".into());
                for (w, _) in mrest {
                    s.push(' ');
                    s.push_str(&w);
                }
            }
            if let Some((suf, f)) = suffix {
                s.push(' ');
                s.push_str(&suf);
                feats.push(f.to_string());
            }
            feats.sort();
            feats.dedup();
            (s, feats)
        })
}

/// A candidate id derived from an expected one.
fn mutate(e: &str, other: &str, op: u8, pos: u16, ch: char) -> String {
    let cs: Vec<char> = e.chars().collect();
    let at = |n: usize| (pos as usize * (n + 1)) >> 16;
    match op % 12 {
        0 => e.to_uppercase(),
        1 => {
            // one letter in upper case
            let i = at(cs.len().saturating_sub(1));
            cs.iter().enumerate().map(|(k, c)| if k == i { c.to_ascii_uppercase() } else { *c }).collect()
        }
        2 => {
            let mut v = cs.clone();
            if !v.is_empty() {
                v.remove(at(v.len() - 1));
            }
            v.into_iter().collect()
        }
        3 => {
            let mut v = cs.clone();
            v.insert(at(v.len()), ch);
            v.into_iter().collect()
        }
        4 => {
            let mut v = cs.clone();
            if v.len() >= 2 {
                let i = at(v.len() - 2);
                v.swap(i, i + 1);
            }
            v.into_iter().collect()
        }
        5 => {
            let mut v = cs.clone();
            if !v.is_empty() {
                let i = at(v.len() - 1);
                v[i] = ch;
            }
            v.into_iter().collect()
        }
        6 => format!("{e}{other}"),
        7 => format!("{other}{e}"),
        8 => String::new(),
        9 => {
            // upper-case variant of the other expected id
            let i = at(other.chars().count().saturating_sub(1));
            other.chars().enumerate().map(|(k, c)| if k <= i { c.to_ascii_uppercase() } else { c }).collect()
        }
        10 => cs.iter().take(at(cs.len())).collect(),
        _ => {
            let mut c = cs.clone();
            if let Some(f) = c.first_mut() {
                *f = f.to_ascii_uppercase();
            }
            c.into_iter().collect()
        }
    }
}

fn wrong_id() -> impl Strategy<Value = String> { prop_oneof!["[a-z]{1,3}zq[0-9]{0,2}", "qx[a-z0-9]{1,10}"] }

pub struct C20;

impl Prop for C20 {
    type Case = Case;

    fn id(&self) -> &'static str { "C20" }

    fn rule(&self) -> String {
        "names generated from the grammar CONTRIBUTING.md describes (1-6 words: capitalised words, small words, ALL-CAPS, dotted acronyms, roman numerals I-MMCMXCIX, numbers and \
         years in first / inner / last position, letter-digit mixes, hyphenated words, hyphenated compounds of 2-3 arbitrary components (words, all-caps, numbers, letter-digit mixes, apostrophe years), number-hyphen-number incl. apostrophes, number-hyphen-text, punctuation : ' & . ! ,; optional \
         '(year)' or '(edition)' suffix; optional ' - Mod' part). Single game, fresh checker: two different wrong lower-case ids are proposed; the sets of expected ids the checker \
         reports must be equal, non-empty, every reported id must be accepted when proposed, and both wrong ids must be rejected; further candidate ids are derived from the reported ones (upper-case variants of one letter / a prefix / the whole id, deletion, insertion, replacement, transposition, prefix, concatenations, the empty id) and must be accepted exactly when they are members of the reported set, with the same reported set. Lists of 1-4 games (ids taken from the reported \
         ones, their duplicates and wrong ones) are checked for totality. The shipped table must pass. Any panic is a violation. non-trivial = the name uses at least two grammar \
         features; distinct = digest of the case"
            .into()
    }

    fn assumptions(&self) -> Vec<String> {
        vec!["proposed wrong ids are lower case and contain 'zq' / start with 'qx', which no generated name can produce".into()]
    }

    fn random_cases(&self, tier: Tier) -> u64 { tier.pick(300_000, 12_000_000) }

    fn strategy(&self, _tier: Tier) -> BoxedStrategy<Case> {
        let mutation = (0u8 .. 12, any::<u16>(), prop_oneof![4 => proptest::char::range('a', 'z'), 2 => proptest::char::range('0', '9'), 1 => proptest::char::range('A', 'Z'), 1 => Just('-'), 1 => Just('_'), 1 => Just(' ')]);
        let single = (name(), wrong_id(), wrong_id(), prop::collection::vec(mutation, 0 .. 8)).prop_map(|((name, features), a, b, mutations)| {
            let b = if a == b { format!("{b}q") } else { b };
            Case::Single { name, wrong_a: a, wrong_b: b, features, mutations }
        });
        let list = prop::collection::vec((name(), prop_oneof![Just(0u8), Just(1), Just(2)], wrong_id()), 1..5).prop_map(|v| {
            let mut games: Vec<(String, String)> = Vec::new();
            for ((n, _), how, wrong) in v {
                // 0: the id the checker expects, 1: a wrong id, 2: the previous game's id again
                let id = match how {
                    0 => {
                        panics::catch(|| test_single_game_rule(&wrong, &n))
                            .ok()
                            .and_then(|f| f.last().map(|x| x.expected_id.clone()))
                            .unwrap_or(wrong.clone())
                    }
                    1 => wrong,
                    _ => games.last().map(|g| g.0.clone()).unwrap_or(wrong),
                };
                games.push((id, n));
            }
            Case::List { games }
        });
        prop_oneof![8 => single, 2 => list].boxed()
    }

    fn enumerated<'a>(&'a self, _tier: Tier, shard: usize, _nshards: usize) -> Box<dyn Iterator<Item = Case> + 'a> {
        if shard != 0 {
            return Box::new(std::iter::empty());
        }
        let mut v = vec![Case::Table];
        for n in [
            "Test Game", "S.T.A.L.K.E.R", "The Binding of Isaac", "Dino D-Day", "Grand Theft Auto XIV", "Left 4 Dead", "7 Days to Die", "Team Fortress 2", "Unreal Tournament 2003",
            "Darkest Hour: Europe '44-'45 (2008)", "Grand Theft Auto V - FiveM (2013)", "Just Cause 2 - Multiplayer", "Minecraft (legacy 1.6)", "3-D Ultra Minigolf", "Half-Life 2-Player",
            "1942", "2", "A", "X", "IV", "Star Wars: Battlefront II (2005)", "44-45", "Left 4 Dead 2 - Mod 2",
        ] {
            let mutations: Vec<(u8, u16, char)> = (0u8 .. 12).flat_map(|op| [(op, 0u16, 'q'), (op, 40_000, '7'), (op, u16::MAX, 'Q')]).collect();
            v.push(Case::Single { name: n.to_string(), wrong_a: "qxa".into(), wrong_b: "qxb7".into(), features: vec!["fixed".into(), "example".into()], mutations });
        }
        Box::new(v.into_iter())
    }

    fn run(&self, case: &Case) -> Outcome {
        let mut o = Outcome::new();
        match case {
            Case::Table => {
                o.label("definitions-table");
                o.nontrivial = true;
                let r = panics::catch(|| test_game_name_rules(gamedig::GAMES.entries().map(|(id, g)| (id.to_owned(), g.name))));
                match r {
                    Ok(f) if f.is_empty() => {}
                    Ok(f) => {
                        o.fail("C20|definitions table|does not pass the naming rules", json!({"failures": f.iter().map(|x| format!("{} -> expected {}", x.game_id, x.expected_id)).collect::<Vec<_>>()}));
                    }
                    Err(p) => {
                        o.fail(format!("C20|panic|{}|{}", p.site(), p.class()), json!({"panic": p}));
                    }
                }
            }
            Case::List { games } => {
                o.label(format!("list-of-{}", games.len()));
                o.nontrivial = games.len() > 1;
                let r = panics::catch(|| test_game_name_rules(games.iter().map(|(i, n)| (i.as_str(), n.as_str()))).len());
                if let Err(p) = r {
                    o.fail(format!("C20|panic|{}|{}", p.site(), p.class()), json!({"games": games, "panic": p}));
                }
            }
            Case::Single { name, wrong_a, wrong_b, features, mutations } => {
                for f in features {
                    o.label(format!("feature={f}"));
                }
                o.nontrivial = features.len() >= 2;
                let r = panics::catch(|| {
                    let fa = test_single_game_rule(wrong_a, name);
                    let fb = test_single_game_rule(wrong_b, name);
                    let mut ea: Vec<String> = fa.iter().map(|f| f.expected_id.clone()).collect();
                    let mut eb: Vec<String> = fb.iter().map(|f| f.expected_id.clone()).collect();
                    ea.sort();
                    ea.dedup();
                    eb.sort();
                    eb.dedup();
                    // a generated "wrong" id can happen to be one of the expected ids (seen once in twenty million cases): it is then accepted,
                    // rightly, and has to be a member of the set the other proposal reports
                    if ea.is_empty() && eb.is_empty() {
                        let mut ec: Vec<String> = test_single_game_rule(&format!("{wrong_a}{wrong_b}zq"), name).iter().map(|f| f.expected_id.clone()).collect();
                        ec.sort();
                        ec.dedup();
                        if ec.is_empty() || !ec.contains(wrong_a) || !ec.contains(wrong_b) {
                            return Err(("a wrong id was accepted".to_string(), json!({"wrong_a": wrong_a, "wrong_b": wrong_b, "expected_after_a_third_id": ec})));
                        }
                        ea = ec.clone();
                        eb = ec;
                    } else if ea.is_empty() {
                        if !eb.contains(wrong_a) {
                            return Err(("a wrong id was accepted".to_string(), json!({"wrong_a": wrong_a, "expected_after_a": ea, "wrong_b": wrong_b, "expected_after_b": eb})));
                        }
                        ea = eb.clone();
                    } else if eb.is_empty() {
                        if !ea.contains(wrong_b) {
                            return Err(("a wrong id was accepted".to_string(), json!({"wrong_a": wrong_a, "expected_after_a": ea, "wrong_b": wrong_b, "expected_after_b": eb})));
                        }
                        eb = ea.clone();
                    }
                    if ea != eb {
                        return Err(("expected ids depend on the proposed id".to_string(), json!({"after_a": ea, "after_b": eb})));
                    }
                    for e in &ea {
                        let f = test_single_game_rule(e, name);
                        if !f.is_empty() {
                            return Err((
                                "an id reported as expected is rejected".to_string(),
                                json!({"proposed": e, "then_expected": f.iter().map(|x| x.expected_id.clone()).collect::<Vec<_>>(), "rules": format!("{:?}", f.last().map(|x| x.rule_stack.clone()))}),
                            ));
                        }
                    }
                    // acceptance is exactly membership in the reported set, for candidates derived from the expected ids
                    for (k, (op, pos, ch)) in mutations.iter().enumerate() {
                        let e = &ea[(k + *pos as usize) % ea.len()];
                        let other = &ea[(k + *pos as usize + 1) % ea.len()];
                        let cand = mutate(e, other, *op, *pos, *ch);
                        let f = test_single_game_rule(&cand, name);
                        let member = ea.contains(&cand);
                        if f.is_empty() != member {
                            let kind = if cand.to_lowercase() != cand { "with upper-case letters" } else if cand.is_empty() { "empty" } else { "lower-case" };
                            return Err((
                                if member { "an id reported as expected is rejected".to_string() } else { format!("an id that is never reported as expected is accepted|{kind}") },
                                json!({"candidate": cand, "reported_expected": ea, "derived_from": e}),
                            ));
                        }
                        let mut ec: Vec<String> = f.iter().map(|x| x.expected_id.clone()).collect();
                        ec.sort();
                        ec.dedup();
                        // (the lower-case rule reports the lower-cased proposal itself: only lower-case proposals are compared)
                        if !member && cand.to_lowercase() == cand && ec != ea {
                            return Err(("expected ids depend on the proposed id".to_string(), json!({"after_a": ea, "candidate": cand, "after_candidate": ec})));
                        }
                        // a proposal with upper-case letters: the ids expected for the name, plus (from the lower-case rule) the lower-cased proposal, and nothing else
                        if !member && cand.to_lowercase() != cand {
                            let lowered = cand.to_lowercase();
                            let missing: Vec<&String> = ea.iter().filter(|e| !ec.contains(e)).collect();
                            let extra: Vec<&String> = ec.iter().filter(|e| !ea.contains(e) && **e != lowered).collect();
                            if !missing.is_empty() || !extra.is_empty() {
                                return Err(("expected ids depend on the proposed id|upper-case proposal".to_string(), json!({"after_a": ea, "candidate": cand, "after_candidate": ec, "missing": missing, "extra": extra})));
                            }
                        }
                    }
                    // candidates derived from the NAME: what the checker itself expects for each part after a hyphen, taken as a name of its own
                    for (i, _) in name.match_indices('-') {
                        let tail = &name[i + 1 ..];
                        let cands: Vec<String> = test_single_game_rule("zzzzqq", tail).iter().map(|x| x.expected_id.clone()).collect();
                        for cand in cands {
                            let accepted = test_single_game_rule(&cand, name).is_empty();
                            let member = ea.contains(&cand);
                            if accepted != member {
                                return Err((
                                    if member { "an id reported as expected is rejected".to_string() } else { "an id that is never reported as expected is accepted|id of the part after a hyphen".to_string() },
                                    json!({"candidate": cand, "reported_expected": ea, "part": tail}),
                                ));
                            }
                        }
                    }
                    Ok(())
                });
                match r {
                    Ok(Ok(())) => {}
                    Ok(Err((what, detail))) => {
                        o.fail(format!("C20|single game|{what}"), json!({"name": name, "detail": detail}));
                    }
                    Err(p) => {
                        o.fail(format!("C20|panic|{}|{}", p.site(), p.class()), json!({"name": name, "panic": p}));
                    }
                }
            }
        }
        o
    }
}
