//! C03 — Minecraft status replies decode exactly; auto-detect order holds.

use gamedig::games::minecraft::{self, JavaResponse, LegacyGroup, Server};
use gamedig::verif_hook::Proto;
use gamedig::GDErrorKind;
use proptest::prelude::*;
use serde::{Deserialize, Serialize};
use serde_json::json;
use std::net::SocketAddr;

use crate::models::minecraft::*;
use crate::runner::{sample_one, Outcome, Prop, Tier};
use crate::util::{brief, diff_path, doc_ip, expect_equal};
use crate::wire::{render_log, run_scripted, Ended, Run};

#[derive(Debug, Clone, Copy, Serialize, Deserialize, PartialEq)]
pub enum Via {
    /// minecraft::protocol::* with an explicit socket address
    Protocol,
    /// games::minecraft::* with the default port
    Games,
}

#[derive(Debug, Clone, Serialize, Deserialize)]
pub enum Case {
    Java { spec: McServerSpec, via: Via },
    Bedrock { spec: McServerSpec, via: Via },
    /// query_legacy_specific(group)
    LegacySpecific { spec: McServerSpec, group: u8, via: Via },
    /// query_legacy (1.6 -> 1.4 -> b1.8)
    LegacyAuto { spec: McServerSpec, via: Via },
    /// query (java -> bedrock -> legacy)
    Auto { spec: McServerSpec, via: Via },
}

fn spec_strategy(speaks: BoxedStrategy<u8>) -> impl Strategy<Value = McServerSpec> {
    (speaks, java_status(), bedrock_status(), legacy_status(), any::<bool>()).prop_map(|(speaks, java, bedrock, legacy, close_on_unknown)| {
        McServerSpec {
            speaks,
            java,
            bedrock,
            legacy,
            close_on_unknown,
        }
    })
}

fn via() -> impl Strategy<Value = Via> { prop_oneof![3 => Just(Via::Protocol), 1 => Just(Via::Games)] }

fn group_of(g: u8) -> LegacyGroup {
    match g {
        0 => LegacyGroup::V1_6,
        1 => LegacyGroup::V1_4,
        _ => LegacyGroup::VB1_8,
    }
}

fn bedrock_as_java(b: &BedrockStatus) -> JavaResponse {
    JavaResponse {
        game_version: b.version.clone(),
        protocol_version: 0,
        players_maximum: b.max,
        players_online: b.online,
        players: None,
        description: b.motd.clone(),
        favicon: None,
        previews_chat: None,
        enforces_secure_chat: None,
        server_type: Server::Bedrock,
    }
}

fn expect_java(entry: &str, run: &Run<JavaResponse>, expected: &JavaResponse) -> Option<crate::runner::Failure> {
    match &run.ended {
        Ended::Ok(got) => {
            if java_equal(expected, got) {
                None
            } else {
                let mut e2 = expected.clone();
                if serde_json::from_str::<serde_json::Value>(&got.description).ok() == serde_json::from_str(&expected.description).ok() {
                    e2.description = got.description.clone();
                }
                let path = diff_path(&e2, got, &[]);
                Some(crate::runner::Failure {
                    signature: format!("C03|{entry}|mismatch|{path}"),
                    detail: json!({"first_difference": path, "expected": brief(expected), "observed": brief(got), "wire": render_log(&run.log[.. run.log.len().min(30)])}),
                })
            }
        }
        _ => expect_equal("C03", entry, run, expected, &[]),
    }
}

/// Variants the wire log shows were attempted, in order.
fn attempts(run_log: &[crate::wire::Ev]) -> Vec<(Proto, u16)> {
    run_log
        .iter()
        .filter_map(|e| {
            match e {
                crate::wire::Ev::Open { proto, peer, .. } => Some((*proto, peer.port())),
                _ => None,
            }
        })
        .collect()
}

static FIDELITY: std::sync::atomic::AtomicU64 = std::sync::atomic::AtomicU64::new(0);

pub struct C03;

impl Prop for C03 {
    type Case = Case;

    fn id(&self) -> &'static str { "C03" }

    fn extra_evidence(&self) -> serde_json::Value {
        serde_json::json!({"traces_validated_against_impl": FIDELITY.load(std::sync::atomic::Ordering::Relaxed),
                           "traces_validated_note": "a sample of the Java (TCP) and Bedrock (UDP) cases is replayed over real loopback sockets with the same reference server; the result must equal the scripted-transport result"})
    }

    fn rule(&self) -> String {
        "random Minecraft statuses: Java JSON (any Unicode version name, i32 protocol, u32 counts, sample absent/null/[]/1-12 entries, description \
         absent/string/chat component, favicon, chat flags, unknown extra members, shuffled member order, optional whitespace, optional pong packet), \
         Bedrock pong (6-12 fields, five game modes), legacy 1.6 / 1.4 / beta 1.8 kick packets (UTF-16BE incl. supplementary-plane characters), \
         each served by a reference server that speaks a subset of the five variants; the specific queries must return exactly the status and the \
         auto-detecting queries must try java, bedrock, 1.6, 1.4, b1.8 in that order (observed as the sequence of connections), return the first \
         variant spoken, label it, and fail with AutoQuery only if none answers. All 32 subsets are enumerated in every run. non-trivial = an \
         optional member present, a non-ASCII string, or a subset that is not a single variant; distinct = digest of the case"
            .into()
    }

    fn assumptions(&self) -> Vec<String> {
        vec![
            "the Java `description` is returned as the JSON text of the member (absent = \"null\"); it is compared as a parsed JSON value".into(),
            "a Bedrock pong carries a trailing ';' only when it has at least 9 fields (otherwise the empty last field would be an optional member)".into(),
            "a server 'speaks' a variant when it answers exactly that variant's request bytes; other requests get silence or a closed stream".into(),
            "legacy request literals are the ones of the implementation (FE 01 FA 0007 'GameDig'; FE 01; FE)".into(),
        ]
    }

    fn random_cases(&self, tier: Tier) -> u64 { tier.pick(40_000, 2_000_000) }

    fn strategy(&self, _tier: Tier) -> BoxedStrategy<Case> {
        prop_oneof![
            4 => (spec_strategy(Just(0b00001u8).boxed()), via()).prop_map(|(spec, via)| Case::Java { spec, via }),
            3 => (spec_strategy(Just(0b00010u8).boxed()), via()).prop_map(|(spec, via)| Case::Bedrock { spec, via }),
            3 => (spec_strategy((0u8..32).boxed()), 0u8..3, via()).prop_map(|(spec, group, via)| Case::LegacySpecific { spec, group, via }),
            1 => (spec_strategy((0u8..32).boxed()), via()).prop_map(|(spec, via)| Case::LegacyAuto { spec, via }),
            3 => (spec_strategy((0u8..32).boxed()), via()).prop_map(|(spec, via)| Case::Auto { spec, via }),
        ]
        .boxed()
    }

    fn enumerated<'a>(&'a self, tier: Tier, shard: usize, nshards: usize) -> Box<dyn Iterator<Item = Case> + 'a> {
        let reps = tier.pick(50u64, 500);
        let mut v = Vec::new();
        let mut k = 0u64;
        for speaks in 0u8 .. 32 {
            for r in 0 .. reps {
                k += 1;
                if k as usize % nshards != shard {
                    continue;
                }
                let mut spec = sample_one(&spec_strategy(Just(speaks).boxed()), "C03-auto", k);
                spec.speaks = speaks;
                let via = if r % 5 == 0 { Via::Games } else { Via::Protocol };
                v.push(Case::Auto { spec: spec.clone(), via });
                if r % 10 == 0 {
                    v.push(Case::LegacyAuto { spec, via });
                }
            }
        }
        Box::new(v.into_iter())
    }

    fn exhaustive_subspaces(&self, _tier: Tier) -> Vec<String> { vec!["all 32 subsets of {java, bedrock, 1.6, 1.4, b1.8} a server may speak".into()] }

    fn run(&self, case: &Case) -> Outcome {
        let mut o = Outcome::new();
        let ip = doc_ip();
        let port = 40_000u16;
        let addr = SocketAddr::new(ip, port);
        match case {
            Case::Java { spec, via } => {
                let st = &spec.java;
                o.label("java");
                o.label(match &st.sample { Sample::Absent => "sample=absent", Sample::Null => "sample=null", Sample::List(l) if l.is_empty() => "sample=[]", _ => "sample=n" });
                o.label(match &st.description { Description::Absent => "desc=absent", Description::Text(_) => "desc=string", _ => "desc=component" });
                if st.with_pong { o.label("pong-appended"); }
                o.nontrivial = st.sample != Sample::Absent || st.favicon.is_some() || st.previews_chat.is_some() || !st.version_name.is_ascii() || st.description != Description::Absent;
                let server = McServer::new(spec.clone());
                let run = match via {
                    Via::Protocol => run_scripted(Box::new(server), || minecraft::protocol::query_java(&addr, None, None)),
                    Via::Games => run_scripted(Box::new(server), || minecraft::query_java(&ip, None, None)),
                };
                o.failure = expect_java("minecraft::query_java", &run, &st.expected());
                if o.failure.is_none() && *via == Via::Protocol && crate::runner::digest(st.version_name.as_bytes()) % 24 == 0 {
                    let spec2 = spec.clone();
                    let make = move || Box::new(McServer::new(spec2.clone())) as Box<dyn crate::wire::Responder>;
                    if let Some(real) = crate::realnet::fidelity("C03 java", Proto::Tcp, make, &run, 1500, |a, t| minecraft::protocol::query_java(&a, t, None), &FIDELITY) {
                        o.fail(format!("C03|real sockets|C03 java|differs from the scripted transport|{real}"), serde_json::json!({"over_real_loopback_sockets": real, "scripted_transport": "Ok (equal to the reference value)"}));
                    }
                }
                if o.failure.is_none() && *via == Via::Games && attempts(&run.log) != vec![(Proto::Tcp, 25565)] {
                    o.fail("C03|games::minecraft::query_java|port|default port", json!({"attempts": format!("{:?}", attempts(&run.log))}));
                }
            }
            Case::Bedrock { spec, via } => {
                let st = &spec.bedrock;
                o.label("bedrock");
                o.label(format!("bedrock-fields={}", 6 + st.id.is_some() as usize + st.level.is_some() as usize + st.mode.is_some() as usize + st.extras.len()));
                o.nontrivial = st.id.is_some() || !st.motd.is_ascii();
                let server = McServer::new(spec.clone());
                let run = match via {
                    Via::Protocol => run_scripted(Box::new(server), || minecraft::protocol::query_bedrock(&addr, None)),
                    Via::Games => run_scripted(Box::new(server), || minecraft::query_bedrock(&ip, None)),
                };
                o.failure = expect_equal("C03", "minecraft::query_bedrock", &run, &st.expected(), &[]);
                if o.failure.is_none() && *via == Via::Protocol && crate::runner::digest(st.motd.as_bytes()) % 24 == 0 {
                    let spec2 = spec.clone();
                    let make = move || Box::new(McServer::new(spec2.clone())) as Box<dyn crate::wire::Responder>;
                    if let Some(real) = crate::realnet::fidelity("C03 bedrock", Proto::Udp, make, &run, 1000, |a, t| minecraft::protocol::query_bedrock(&a, t), &FIDELITY) {
                        o.fail(format!("C03|real sockets|C03 bedrock|differs from the scripted transport|{real}"), serde_json::json!({"over_real_loopback_sockets": real, "scripted_transport": "Ok (equal to the reference value)"}));
                    }
                }
                if o.failure.is_none() && *via == Via::Games && attempts(&run.log) != vec![(Proto::Udp, 19132)] {
                    o.fail("C03|games::minecraft::query_bedrock|port|default port", json!({"attempts": format!("{:?}", attempts(&run.log))}));
                }
            }
            Case::LegacySpecific { spec, group, via } => {
                let g = group_of(*group);
                let variant = [Variant::L16, Variant::L14, Variant::LB18][*group as usize];
                o.label(format!("legacy-specific={g:?}"));
                let speaks = spec.speaks(variant);
                o.label(if speaks { "spoken" } else { "not-spoken" });
                o.nontrivial = !spec.legacy.motd.is_ascii() || !speaks;
                let server = McServer::new(spec.clone());
                let run = match via {
                    Via::Protocol => run_scripted(Box::new(server), || minecraft::protocol::query_legacy_specific(g, &addr, None)),
                    Via::Games => run_scripted(Box::new(server), || minecraft::query_legacy_specific(g, &ip, None)),
                };
                if speaks {
                    o.failure = expect_java(&format!("minecraft::query_legacy_specific({g:?})"), &run, &spec.legacy.expected(g));
                } else {
                    match &run.ended {
                        Ended::Err(_) => {}
                        other => {
                            o.fail(
                                format!("C03|minecraft::query_legacy_specific({g:?})|answer from a server that does not speak it|{}", other.kind_str()),
                                json!({"wire": render_log(&run.log)}),
                            );
                        }
                    }
                }
                if o.failure.is_none() && *via == Via::Games && attempts(&run.log) != vec![(Proto::Tcp, 25565)] {
                    o.fail("C03|games::minecraft::query_legacy_specific|port|default port", json!({"attempts": format!("{:?}", attempts(&run.log))}));
                }
            }
            Case::LegacyAuto { spec, via } | Case::Auto { spec, via } => {
                let full = matches!(case, Case::Auto { .. });
                let order: Vec<Variant> = if full { ORDER.to_vec() } else { ORDER[2 ..].to_vec() };
                let first = order.iter().copied().find(|v| spec.speaks(*v));
                let entry = if full { "minecraft::query" } else { "minecraft::query_legacy" };
                o.label(if full { "auto" } else { "legacy-auto" });
                o.label(format!("{}speaks={:05b}", if full { "" } else { "legacy-" }, spec.speaks));
                o.label(format!("first={first:?}"));
                o.nontrivial = spec.speaks.count_ones() != 1;
                let server = McServer::new(spec.clone());
                let run = match (full, via) {
                    (true, Via::Protocol) => run_scripted(Box::new(server), || minecraft::protocol::query(&addr, None, None)),
                    (true, Via::Games) => run_scripted(Box::new(server), || minecraft::query(&ip, None)),
                    (false, Via::Protocol) => run_scripted(Box::new(server), || minecraft::protocol::query_legacy(&addr, None)),
                    (false, Via::Games) => run_scripted(Box::new(server), || minecraft::query_legacy(&ip, None)),
                };
                match first {
                    None => {
                        match &run.ended {
                            Ended::Err(GDErrorKind::AutoQuery) => {}
                            other => {
                                o.fail(format!("C03|{entry}|no variant spoken|{}", other.kind_str()), json!({"wire": render_log(&run.log)}));
                            }
                        }
                    }
                    Some(v) => {
                        let expected = match v {
                            Variant::Java => spec.java.expected(),
                            Variant::Bedrock => bedrock_as_java(&spec.bedrock),
                            Variant::L16 => spec.legacy.expected(LegacyGroup::V1_6),
                            Variant::L14 => spec.legacy.expected(LegacyGroup::V1_4),
                            Variant::LB18 => spec.legacy.expected(LegacyGroup::VB1_8),
                        };
                        o.failure = expect_java(entry, &run, &expected);
                    }
                }
                if o.failure.is_none() {
                    // order of attempts = order of connections
                    let upto = match first {
                        Some(v) => order.iter().position(|x| *x == v).unwrap() + 1,
                        None => order.len(),
                    };
                    let want: Vec<(Proto, u16)> = order[.. upto]
                        .iter()
                        .map(|v| {
                            let proto = if *v == Variant::Bedrock { Proto::Udp } else { Proto::Tcp };
                            let p = match via {
                                Via::Protocol => port,
                                Via::Games => if *v == Variant::Bedrock { 19132 } else { 25565 },
                            };
                            (proto, p)
                        })
                        .collect();
                    let got = attempts(&run.log);
                    // which request was the first one on every connection that was accepted
                    let mut firsts: Vec<Option<Variant>> = Vec::new();
                    let mut accepted: Vec<Variant> = Vec::new();
                    for (i, e) in run.log.iter().enumerate() {
                        if let crate::wire::Ev::Open { conn, proto, refused: false, .. } = e {
                            let first = run.log[i ..].iter().find_map(|x| {
                                match x {
                                    crate::wire::Ev::Send { conn: c, data, .. } if c == conn => Some(data.clone()),
                                    _ => None,
                                }
                            });
                            firsts.push(first.and_then(|d| {
                                if *proto == Proto::Udp {
                                    if d == BEDROCK_REQUEST { Some(Variant::Bedrock) } else { None }
                                } else {
                                    classify_tcp_first_send(&d)
                                }
                            }));
                        }
                    }
                    let any_tcp = spec.any_tcp();
                    for v in &order[.. upto] {
                        if *v == Variant::Bedrock || any_tcp {
                            accepted.push(*v);
                        }
                    }
                    let want_firsts: Vec<Option<Variant>> = accepted.into_iter().map(Some).collect();
                    if firsts != want_firsts {
                        o.fail(format!("C03|{entry}|variant order"), json!({"requests": format!("{firsts:?}"), "expected": format!("{want_firsts:?}"), "wire": render_log(&run.log)}));
                    }
                    if got != want {
                        o.fail(format!("C03|{entry}|attempt order"), json!({"attempts": format!("{got:?}"), "expected": format!("{want:?}"), "wire": render_log(&run.log)}));
                    }
                }
            }
        }
        o
    }
}
