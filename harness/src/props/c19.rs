//! C19 — the CLI prints a well-formed, faithful document or a clean error.

use base64::Engine;
use gamedig::verif_hook::Proto;
use gamedig::GAMES;
use proptest::prelude::*;
use serde::{Deserialize, Serialize};
use serde_json::{json, Value};
use std::io::Read;
use std::net::{IpAddr, Ipv4Addr};
use std::process::{Command, Stdio};
use std::time::{Duration, Instant};

use crate::entries::{family_of_game, Family};
use crate::models::family::{fam_state, FamState};
use crate::realnet::RealServer;
use crate::runner::{Outcome, Prop, Tier};
use crate::wire::run_plain;
use crate::xmlcheck::{self, Node};

pub const CLI_GAMES: [&str; 16] = [
    "teamfortress2", "counterstrike", "theship", "battlefield1942", "hce", "crysiswars", "quake1", "q3a", "killingfloor", "minecraftjava", "minecraftbedrock", "minecraftlegacy16",
    "ffow", "savage2", "jc2m", "mindustry",
];
pub const FORMATS: [&str; 6] = ["debug", "json-pretty", "json", "xml", "bson-hex", "bson-base64"];

#[derive(Debug, Clone, Serialize, Deserialize)]
pub enum Case {
    Query {
        game: String,
        format: u8,
        specific: bool,
        st: FamState,
        /// further valid options of the invocation
        #[serde(default)]
        opts: Opts,
    },
    /// invalid invocation: arguments after the program name
    Invalid { args: Vec<String>, what: String },
}

/// The optional flags of `query` with valid values; the same settings are given to the library call that provides the expected document.
#[derive(Debug, Clone, Default, Serialize, Deserialize)]
pub struct Opts {
    pub write: Option<u8>,
    pub connect: Option<u8>,
    pub retries: Option<u8>,
    pub hostname: Option<String>,
    pub protocol_version: Option<u32>,
    pub gather_players: Option<u8>,
    pub gather_rules: Option<u8>,
    pub check_app_id: Option<bool>,
    /// `--flag=value` instead of `--flag value`
    pub eq_style: bool,
    /// `-i localhost` instead of the address literal (the tool looks the name up and, when no host name option is given, uses it as the host name setting)
    #[serde(default)]
    pub by_name: bool,
}

impl Opts {
    fn args(&self) -> Vec<String> {
        let tog = |t: u8| ["skip", "try", "enforce"][t as usize % 3].to_string();
        let mut pairs: Vec<(&str, String)> = Vec::new();
        if let Some(v) = self.write { pairs.push(("--write-timeout", v.to_string())); }
        if let Some(v) = self.connect { pairs.push(("--connect-timeout", v.to_string())); }
        if let Some(v) = self.retries { pairs.push(("--retries", v.to_string())); }
        if let Some(v) = &self.hostname { pairs.push(("--hostname", v.clone())); }
        if let Some(v) = self.protocol_version { pairs.push(("--protocol-version", v.to_string())); }
        if let Some(v) = self.gather_players { pairs.push(("--gather-players", tog(v))); }
        if let Some(v) = self.gather_rules { pairs.push(("--gather-rules", tog(v))); }
        if let Some(v) = self.check_app_id { pairs.push(("--check-app-id", v.to_string())); }
        let mut out = Vec::new();
        for (f, v) in pairs {
            if self.eq_style {
                out.push(format!("{f}={v}"));
            } else {
                out.push(f.to_string());
                out.push(v);
            }
        }
        out
    }

    fn extra(&self) -> Option<gamedig::protocols::types::ExtraRequestSettings> {
        if self.hostname.is_none() && self.protocol_version.is_none() && self.gather_players.is_none() && self.gather_rules.is_none() && self.check_app_id.is_none() && !self.by_name {
            return None;
        }
        let mut e = gamedig::protocols::types::ExtraRequestSettings::default();
        e.hostname = self.hostname.clone().or_else(|| self.by_name.then(|| "localhost".to_string()));
        e.protocol_version = self.protocol_version.map(|v| v as i32);
        e.gather_players = self.gather_players.map(|t| crate::entries::toggle(t % 3));
        e.gather_rules = self.gather_rules.map(|t| crate::entries::toggle(t % 3));
        e.check_app_id = self.check_app_id;
        Some(e)
    }
}

fn opts() -> impl Strategy<Value = Opts> {
    let maybe = |w: u32| prop::bool::weighted(1.0 / w as f64);
    (
        (maybe(5), 1u8 .. 10, maybe(5), 1u8 .. 10, maybe(5), 0u8 .. 3),
        (maybe(4), "[a-z0-9][a-z0-9.-]{0,30}", maybe(4), prop_oneof![0u32 .. 1000, 0u32 ..= i32::MAX as u32]),
        (maybe(4), 0u8 .. 3, maybe(4), 0u8 .. 3, maybe(5), any::<bool>(), any::<bool>(), maybe(4)),
    )
        .prop_map(|((hw, w, hc, c, hr, r), (hh, h, hp, p), (hgp, gp, hgr, gr, hca, ca, eq_style, by_name))| {
            Opts {
                write: hw.then_some(w),
                connect: hc.then_some(c),
                retries: hr.then_some(r),
                hostname: hh.then_some(h),
                protocol_version: hp.then_some(p),
                gather_players: hgp.then_some(gp),
                gather_rules: hgr.then_some(gr),
                check_app_id: hca.then_some(ca),
                eq_style,
                by_name,
            }
        })
}

fn cli_path() -> std::path::PathBuf {
    std::env::var("GDV_CLI")
        .map(std::path::PathBuf::from)
        .unwrap_or_else(|_| std::path::PathBuf::from("/verif/harness/target/cli/debug/gamedig_cli"))
}

/// After the reply to an Unreal 2 rules request, one more datagram with the same header but the kind of the server-info reply.
struct StrayDatagram(Box<dyn crate::wire::Responder>);
impl crate::wire::Responder for StrayDatagram {
    fn on_open(&mut self, proto: Proto, peer: &std::net::SocketAddr, out: &mut crate::wire::Outbox) { self.0.on_open(proto, peer, out) }
    fn on_send(&mut self, proto: Proto, peer: &std::net::SocketAddr, nth: usize, data: &[u8], out: &mut crate::wire::Outbox) {
        let before = out.conn.inbox.len();
        self.0.on_send(proto, peer, nth, data, out);
        if data == [0x79, 0, 0, 0, 1] {
            if let Some(first) = out.conn.inbox.get(before).cloned() {
                let mut d = first;
                if d.len() > 4 {
                    d[4] = 0;
                    out.conn.inbox.push_back(d);
                }
            }
        }
    }
}

struct CliRun {
    code: Option<i32>,
    stdout: Vec<u8>,
    stderr: String,
    timed_out: bool,
}

fn run_cli(args: &[String]) -> Option<CliRun> {
    let mut child = Command::new(cli_path())
        .args(args)
        .stdin(Stdio::null())
        .stdout(Stdio::piped())
        .stderr(Stdio::piped())
        .env_remove("RUST_BACKTRACE")
        .spawn()
        .ok()?;
    let mut so = child.stdout.take()?;
    let mut se = child.stderr.take()?;
    let t1 = std::thread::spawn(move || {
        let mut b = Vec::new();
        let _ = so.read_to_end(&mut b);
        b
    });
    let t2 = std::thread::spawn(move || {
        let mut b = Vec::new();
        let _ = se.read_to_end(&mut b);
        String::from_utf8_lossy(&b).to_string()
    });
    let deadline = Instant::now() + Duration::from_secs(40);
    let mut timed_out = false;
    let code = loop {
        match child.try_wait() {
            Ok(Some(s)) => break s.code(),
            Ok(None) => {
                if Instant::now() > deadline {
                    let _ = child.kill();
                    let _ = child.wait();
                    timed_out = true;
                    break None;
                }
                std::thread::sleep(Duration::from_millis(2));
            }
            Err(_) => break None,
        }
    };
    Some(CliRun {
        code,
        stdout: t1.join().unwrap_or_default(),
        stderr: t2.join().unwrap_or_default(),
        timed_out,
    })
}

/// The documented JSON -> XML mapping of the CLI (objects -> elements, arrays -> repeated elements, null -> empty element).
/// Keys that are not plain names (ASCII letter or '_' first, then letters, digits, '_', '-', '.') are written as
/// `<entry key="...">` (the CLI's documented rule).
fn element(k: &str, children: Vec<Node>) -> Node {
    let mut it = k.chars();
    let plain = matches!(it.next(), Some(c) if c.is_ascii_alphabetic() || c == '_') && it.all(|c| c.is_ascii_alphanumeric() || matches!(c, '_' | '-' | '.'));
    if plain {
        Node::Element { name: k.to_string(), key: None, children }
    } else {
        Node::Element { name: "entry".into(), key: Some(k.to_string()), children }
    }
}

fn to_nodes(key: Option<&str>, v: &Value) -> Vec<Node> {
    match v {
        Value::Object(m) => {
            let children: Vec<Node> = m.iter().flat_map(|(k, x)| to_nodes(Some(k), x)).collect();
            match key {
                Some(k) => vec![element(k, children)],
                None => children,
            }
        }
        Value::Array(a) => a.iter().flat_map(|x| to_nodes(Some(key.unwrap_or("item")), x)).collect(),
        Value::Null => key.map(|k| vec![element(k, vec![])]).unwrap_or_default(),
        other => {
            let text = match other {
                Value::String(s) => s.clone(),
                x => x.to_string(),
            };
            let t = if text.is_empty() { vec![] } else { vec![Node::Text(text)] };
            match key {
                Some(k) => vec![element(k, t)],
                None => t,
            }
        }
    }
}

fn canon(n: &Node) -> String {
    match n {
        Node::Text(t) => format!("T{:?}", t),
        Node::Element { name, key, children } => {
            let mut c: Vec<String> = children.iter().map(canon).collect();
            c.sort();
            format!("E{:?}{:?}[{}]", name, key, c.join(","))
        }
    }
}

fn numbers_close(a: &Value, b: &Value) -> bool {
    match (a.as_i64(), b.as_i64(), a.as_u64(), b.as_u64()) {
        (Some(x), Some(y), _, _) => x == y,
        (_, _, Some(x), Some(y)) => x == y,
        _ => {
            match (a.as_f64(), b.as_f64()) {
                // (the shortest text of a subnormal f32 has few digits: equal as f32 is equality for a field of that type)
                (Some(x), Some(y)) => x == y || (x - y).abs() <= 1e-6 * x.abs().max(y.abs()) || (x as f32).to_bits() == (y as f32).to_bits(),
                _ => false,
            }
        }
    }
}

/// Structural equality with numeric tolerance; returns the first differing path.
fn json_equiv(a: &Value, b: &Value, path: &mut String) -> bool {
    match (a, b) {
        (Value::Object(x), Value::Object(y)) => {
            if x.len() != y.len() {
                path.push_str(".{keys}");
                return false;
            }
            for (k, v) in x {
                let Some(w) = y.get(k) else {
                    path.push_str(".{keys}");
                    return false;
                };
                let l = path.len();
                path.push('.');
                path.push_str(&k.chars().take(12).map(|c| if c.is_ascii_alphanumeric() || c == '_' { c } else { '?' }).collect::<String>());
                if !json_equiv(v, w, path) {
                    return false;
                }
                path.truncate(l);
            }
            true
        }
        (Value::Array(x), Value::Array(y)) => {
            if x.len() != y.len() {
                path.push_str(".len");
                return false;
            }
            for (v, w) in x.iter().zip(y) {
                let l = path.len();
                path.push_str("[#]");
                if !json_equiv(v, w, path) {
                    return false;
                }
                path.truncate(l);
            }
            true
        }
        (Value::Number(_), Value::Number(_)) => numbers_close(a, b),
        _ => a == b,
    }
}

/// Make a state whose values every output format can carry (finite floats).
fn sanitise(st: &mut FamState) {
    if let FamState::Valve(v) = st {
        // BSON has no unsigned 64-bit integer (open known finding): keep that class to one case in eight
        if let Some(e) = &mut v.info.edf {
            let keep_big = e.port.map(|p| p % 8 == 0).unwrap_or(false);
            if !keep_big {
                e.steam_id = e.steam_id.map(|x| x & (i64::MAX as u64));
                e.game_id = e.game_id.map(|x| x & (i64::MAX as u64));
            }
        }
        for p in v.players.iter_mut() {
            if !f32::from_bits(p.duration_bits).is_finite() {
                p.duration_bits = 12.5f32.to_bits();
            }
        }
        v.players.truncate(8);
        v.rules.truncate(8);
    }
    if let FamState::Unreal2(u) = st {
        u.num_players = u.players.len() as u32;
    }
}

pub struct C19;

impl Prop for C19 {
    type Case = Case;

    fn id(&self) -> &'static str { "C19" }

    fn rule(&self) -> String {
        "the real gamedig_cli binary (built from /repo for every run) is run against real loopback UDP/TCP servers that serve random states of the reference models (strings \
         with markup characters, quotes, control characters, non-BMP characters; rule keys with spaces / digits first / empty; numbers at type limits incl. u64 above i64::MAX) \
         for 16 games covering every protocol family x 2 output modes x 6 formats x a random subset of the other valid options (write / connect timeouts, retries, host name, \
         protocol version, gather toggles, app id check; `--flag value` or `--flag=value`; the address as literal or as the name `localhost`), which the in-process library call receives too. Oracle: exit status 0 and exactly one document on stdout that a strict parser in the harness \
         accepts (serde_json; an XML 1.1 well-formedness checker incl. the Name production and restricted characters; the bson crate after hex / base64 decoding; debug: non-empty) \
         and that carries the values the library returns for the same server queried in-process (JSON / BSON: structural equality, floats within 1e-6; XML: the tree the CLI's \
         documented JSON->XML mapping gives, children compared as multisets). Invalid invocations (generated junk / out-of-range / extreme values for every value-taking flag in front of a refused connection or an unknown game; spellings of zero for the three timeout flags with UDP and TCP games; unknown game, unresolvable host, closed port, zero / non-numeric / negative \
         timeout flags, out-of-range port, unknown format, missing arguments) must exit non-zero with a message on stderr and no panic. non-trivial = a markup / control / non-ASCII \
         character reached the document, or an invalid invocation; distinct = digest of the case"
            .into()
    }

    fn assumptions(&self) -> Vec<String> {
        vec![
            "floating point values are finite (JSON cannot carry infinities)".into(),
            "the in-process query and the CLI see the same answers: the reference servers are deterministic".into(),
        ]
    }

    fn random_cases(&self, tier: Tier) -> u64 { tier.pick(2_500, 150_000) }

    fn hang_secs(&self) -> u64 { 120 }

    fn shrink_budget(&self) -> (usize, u64) { (60, 6) }

    fn strategy(&self, _tier: Tier) -> BoxedStrategy<Case> {
        let mut weighted: Vec<&'static str> = Vec::new();
        for g in CLI_GAMES {
            // an Unreal 2 query always waits one read timeout for the end of its rule list
            for _ in 0 .. if g == "killingfloor" { 1 } else { 4 } {
                weighted.push(g);
            }
        }
        let query = (prop::sample::select(weighted), 0u8 .. 6, any::<bool>())
            .prop_flat_map(|(game, format, specific)| {
                let fam = family_of_game(game).unwrap_or(Family::Savage2);
                (Just(game), Just(format), Just(specific), fam_state(fam), opts())
            })
            .prop_map(|(game, format, specific, mut st, opts)| {
                sanitise(&mut st);
                Case::Query { game: game.to_string(), format, specific, st, opts }
            });
        // a flag value that is junk, out of range or extreme, for a game whose server refuses the connection: whatever the value is taken for,
        // the invocation cannot succeed
        let junk = prop_oneof![
            prop::sample::select(vec![
                "nan", "NaN", "inf", "-inf", "infinity", "1e20", "1e400", "99999999999999999999", "18446744073709551616", "18446744073709551615", "9223372036854775808", "4294967296",
                "0.0000000001", "0.5", "1.5", "-0", "+0", "+1", "-1", "0x10", "1_000", " 1", "1 ", "", "\u{FF11}", "١", "1e0", "1s", "1ms", "00", "٠",
            ])
            .prop_map(|s| s.to_string()),
            "[ -~]{0,12}",
            "[0-9]{15,25}",
            "[-+]?[0-9]{0,3}[.eE][-+]?[0-9]{0,4}",
        ];
        let invalid = (prop::sample::select(vec!["--read-timeout", "--write-timeout", "--connect-timeout", "--retries", "-p", "--gather-players", "--output-mode", "-f"]), junk, any::<bool>()).prop_map(|(flag, value, tcp)| {
            // (`@refusing-tcp` is replaced, when the case runs, by a port that is held refusing connections for the duration of the run)
            let port = if tcp { "@refusing-tcp" } else { "9" };
            let mut args: Vec<String> = ["query", "-g", if tcp { "minecraftjava" } else { "nosuchgame" }, "-i", "127.0.0.1"].iter().map(|s| s.to_string()).collect();
            if flag != "-p" {
                args.push("-p".into());
                args.push(port.to_string());
            }
            // `--flag=value` so that values starting with '-' stay values
            args.push(if flag.starts_with("--") { format!("{flag}={value}") } else { format!("{flag}{value}") });
            Case::Invalid { args, what: format!("generated value for {flag}") }
        });
        // a timeout flag given some spelling of zero (or a look-alike), for a UDP and a TCP game: whether it is rejected by the parser or by the
        // settings' own validation, the tool must end with an error status and a message, not a panic (a zero duration panics in socket setup)
        let zero = (
            prop::sample::select(vec!["--read-timeout", "--write-timeout", "--connect-timeout"]),
            prop_oneof![
                prop::sample::select(vec!["0", "00", "000", "+0", "+00", "-0", "0.0", "0e0", "0x0", " 0", "0 ", "0_0", "0000000000000000000000000", ".0", "0."]).prop_map(|s| s.to_string()),
                "[+]?0{1,30}",
            ],
            prop::sample::select(vec!["teamfortress2", "q3a", "minecraftjava", "minecraftlegacy16", "savage2"]),
        )
            .prop_map(|(flag, value, game)| {
                let tcp = game.starts_with("minecraft");
                let port = if tcp { "@refusing-tcp" } else { "9" };
                let mut args: Vec<String> = ["query", "-g", game, "-i", "127.0.0.1", "-p"].iter().map(|s| s.to_string()).collect();
                args.push(port.to_string());
                // the other timeouts are short, should the value be taken for something else
                for f in ["--read-timeout", "--write-timeout", "--connect-timeout"] {
                    if f != flag {
                        args.push(format!("{f}=1"));
                    }
                }
                args.push(format!("{flag}={value}"));
                Case::Invalid { args, what: format!("zero spelling for {flag}") }
            });
        prop_oneof![12 => query, 2 => invalid, 1 => zero].boxed()
    }

    fn enumerated<'a>(&'a self, _tier: Tier, shard: usize, _nshards: usize) -> Box<dyn Iterator<Item = Case> + 'a> {
        if shard != 0 {
            return Box::new(std::iter::empty());
        }
        let a = |v: &[&str]| v.iter().map(|s| s.to_string()).collect::<Vec<String>>();
        let closed_udp = "@silent-udp";
        let closed_tcp = "@refusing-tcp";
        let v = vec![
            Case::Invalid { args: a(&["query", "-g", "nosuchgame", "-i", "127.0.0.1"]), what: "unknown game".into() },
            Case::Invalid { args: a(&["query", "-g", "teamfortress2", "-i", "no-such-host.invalid"]), what: "unresolvable host".into() },
            Case::Invalid { args: a(&["query", "-g", "teamfortress2", "-i", "127.0.0.1", "-p", &closed_udp.to_string(), "--read-timeout", "1"]), what: "unreachable server (udp)".into() },
            Case::Invalid { args: a(&["query", "-g", "minecraftjava", "-i", "127.0.0.1", "-p", &closed_tcp.to_string(), "--connect-timeout", "1"]), what: "unreachable server (tcp refused)".into() },
            Case::Invalid { args: a(&["query", "-g", "teamfortress2", "-i", "127.0.0.1", "--read-timeout", "0"]), what: "zero read timeout".into() },
            Case::Invalid { args: a(&["query", "-g", "minecraftjava", "-i", "127.0.0.1", "--connect-timeout", "0"]), what: "zero connect timeout".into() },
            Case::Invalid { args: a(&["query", "-g", "teamfortress2", "-i", "127.0.0.1", "--write-timeout", "0"]), what: "zero write timeout".into() },
            Case::Invalid { args: a(&["query", "-g", "teamfortress2", "-i", "127.0.0.1", "--read-timeout", "abc"]), what: "non-numeric timeout".into() },
            Case::Invalid { args: a(&["query", "-g", "teamfortress2", "-i", "127.0.0.1", "--retries", "-1"]), what: "negative retries".into() },
            Case::Invalid { args: a(&["query", "-g", "teamfortress2", "-i", "127.0.0.1", "-p", "65536"]), what: "port out of range".into() },
            Case::Invalid { args: a(&["query", "-g", "teamfortress2", "-i", "127.0.0.1", "-f", "yaml"]), what: "unknown format".into() },
            Case::Invalid { args: a(&["query", "-g", "teamfortress2"]), what: "missing ip".into() },
            Case::Invalid { args: a(&["query", "-g", "teamfortress2", "-i", "127.0.0.1", "--gather-players", "sometimes"]), what: "bad gather toggle".into() },
            Case::Invalid { args: a(&["frobnicate"]), what: "unknown subcommand".into() },
        ];
        Box::new(v.into_iter())
    }

    fn run(&self, case: &Case) -> Outcome {
        let mut o = Outcome::new();
        if !cli_path().exists() {
            o.fail("C19|setup|the gamedig_cli binary was not built", json!({"path": cli_path().display().to_string()}));
            return o;
        }
        match case {
            Case::Invalid { args, what } => {
                o.label(format!("invalid:{what}"));
                o.nontrivial = true;
                // ports that refuse / stay silent are held for the duration of the run (a port that was merely free when the case was
                // generated can belong to another server by now)
                let lo4 = IpAddr::V4(Ipv4Addr::LOCALHOST);
                let mut held: Vec<crate::realnet::HeldPort> = Vec::new();
                let mut args: Vec<String> = args.clone();
                for a in args.iter_mut() {
                    let h = match a.as_str() {
                        "@refusing-tcp" => crate::realnet::refusing_tcp_port(lo4),
                        "@silent-udp" => crate::realnet::silent_udp_port(lo4),
                        _ => continue,
                    };
                    match h {
                        Some(h) => {
                            *a = h.port.to_string();
                            held.push(h);
                        }
                        None => {
                            o.excluded = Some("cannot hold a loopback port".into());
                            o.nontrivial = false;
                            return o;
                        }
                    }
                }
                let args = &args;
                let Some(r) = run_cli(args) else {
                    o.fail("C19|setup|cannot start the CLI", json!({}));
                    return o;
                };
                let detail = json!({"args": args, "exit": r.code, "stderr": r.stderr.chars().take(400).collect::<String>(), "stdout_len": r.stdout.len()});
                if r.timed_out {
                    o.fail(format!("C19|invalid invocation|{what}|did not exit"), detail);
                } else if r.stderr.contains("panicked at") {
                    o.fail(format!("C19|invalid invocation|{what}|panic"), detail);
                } else if r.code == Some(0) || r.code.is_none() {
                    o.fail(format!("C19|invalid invocation|{what}|exit status {:?}", r.code), detail);
                } else if r.stderr.trim().is_empty() {
                    o.fail(format!("C19|invalid invocation|{what}|no error message"), detail);
                }
            }
            Case::Query { game, format, specific, st, opts } => {
                let fmt = FORMATS[*format as usize % 6];
                let opt_args = opts.args();
                o.label(if opt_args.is_empty() { "options=none" } else { "options=some" });
                for a in &opt_args {
                    if let Some(flag) = a.strip_prefix("--") {
                        o.label(format!("option={}", flag.split('=').next().unwrap_or("")));
                    }
                }
                let extra = opts.extra();
                let fam = family_of_game(game).unwrap_or(Family::Savage2);
                o.label(format!("format={fmt}"));
                o.label(if *specific { "mode=protocol-specific" } else { "mode=generic" });
                o.label(format!("game={game}"));
                let lo = if opts.by_name {
                    use std::net::ToSocketAddrs;
                    o.label("address=name");
                    match "localhost:0".to_socket_addrs().ok().and_then(|mut a| a.next()) {
                        Some(a) => a.ip(),
                        None => {
                            o.excluded = Some("`localhost` does not resolve here".into());
                            return o;
                        }
                    }
                } else {
                    IpAddr::V4(Ipv4Addr::LOCALHOST)
                };
                let proto = match fam {
                    Family::McJava | Family::McLegacy(_) => Proto::Tcp,
                    _ => Proto::Udp,
                };
                let st2 = st.clone();
                // Unreal 2: half of the servers also deliver a datagram of another kind while the rule list is being read
                // (a repeated / late datagram on the network); the client has to ignore it quietly
                let stray = fam == Family::Unreal2 && crate::runner::digest(format!("{st:?}").as_bytes()) % 2 == 0;
                if stray { o.label("unreal2: stray datagram during the rule list"); }
                let Some(server) = RealServer::start(proto, lo, Box::new(move || if stray { Box::new(StrayDatagram(st2.responder())) as Box<dyn crate::wire::Responder> } else { st2.responder() })) else {
                    o.excluded = Some("cannot bind loopback".into());
                    return o;
                };
                let port = server.addr.port();
                // what the library returns for this server
                let Some(g) = GAMES.get(game.as_str()) else { return o };
                let mut lib_secs = 1;
                let mut lib = None;
                // a timeout on loopback is scheduling noise, not a property of the code: try again with more patience
                while lib_secs <= 4 {
                    let secs = lib_secs;
                    let r = run_plain(|| {
                    let t = gamedig::protocols::types::TimeoutSettings::new(Some(Duration::from_secs(secs)), Some(Duration::from_secs(secs)), Some(Duration::from_secs(secs)), 0).ok();
                    gamedig::query_with_timeout_and_extra_settings(g, &lo, Some(port), t, extra.clone()).map(|r| {
                        if *specific {
                            serde_json::to_value(r.as_original()).unwrap_or(Value::Null)
                        } else {
                            serde_json::to_value(r.as_json()).unwrap_or(Value::Null)
                        }
                    })
                    });
                    let timed_out = matches!(r.ended, crate::wire::Ended::Err(gamedig::GDErrorKind::PacketReceive));
                    lib = Some(r);
                    if !timed_out {
                        break;
                    }
                    lib_secs *= 2;
                }
                let lib = lib.unwrap();
                let expected = match lib.ended {
                    crate::wire::Ended::Ok(v) => v,
                    crate::wire::Ended::Err(gamedig::GDErrorKind::PacketReceive) => {
                        o.excluded = Some("loopback query timed out three times (scheduling noise): case skipped".into());
                        o.nontrivial = false;
                        return o;
                    }
                    other => {
                        let seen = server.seen.lock().unwrap().clone();
                        o.fail(format!("C19|setup|library query against the loopback server fails|{}|{game}", other.kind_str()), json!({"server_received": seen.received.len(), "handled": server.handled.load(std::sync::atomic::Ordering::SeqCst), "first": seen.received.first().map(|d| crate::wire::hex(d))}));
                        return o;
                    }
                };
                // the XML writer goes through serde_json::Value (f32 widened to f64) ...
                let mut expected_for_xml = expected.clone();
                crate::util::normalise_sets(&mut expected_for_xml);
                // ... the other formats serialise the value directly: text-level round trip, as the CLI prints it
                let mut expected: Value = serde_json::from_str(&serde_json::to_string(&expected).unwrap_or_default()).unwrap_or(Value::Null);
                crate::util::normalise_sets(&mut expected);
                let etext = expected.to_string();
                o.nontrivial = etext.chars().any(|c| matches!(c, '<' | '>' | '&' | '\'') || !c.is_ascii() ) || etext.contains("\\u00") || etext.contains("\\\"");
                // the read timeout stays the last argument: it is the one replaced when a loopback timeout asks for more patience
                let mut args: Vec<String> = ["query", "-g", game, "-i", if opts.by_name { "localhost" } else { "127.0.0.1" }, "-p", &port.to_string(), "-f", fmt, "-o", if *specific { "protocol-specific" } else { "generic" }]
                    .iter()
                    .map(|s| s.to_string())
                    .collect();
                args.extend(opt_args.iter().cloned());
                args.push("--read-timeout".into());
                args.push("1".into());
                let Some(mut r) = run_cli(&args) else {
                    o.fail("C19|setup|cannot start the CLI", json!({}));
                    return o;
                };
                if r.code != Some(0) && r.stderr.contains("PacketReceive") {
                    // a receive timeout on loopback: once more with a longer timeout before judging
                    let mut a2 = args.clone();
                    if let Some(last) = a2.last_mut() {
                        *last = "4".into();
                    }
                    if let Some(r2) = run_cli(&a2) {
                        r = r2;
                    }
                }
                let out = String::from_utf8_lossy(&r.stdout).to_string();
                let detail = |extra: Value| json!({"args": args, "exit": r.code, "stderr": r.stderr.chars().take(300).collect::<String>(), "stdout_head": out.chars().take(500).collect::<String>(), "info": extra, "expected": crate::util::brief(&expected)});
                let fmt_class = if fmt.starts_with("bson") { "bson" } else if fmt.starts_with("json") { "json" } else { fmt };
                let sig = |what: &str| format!("C19|{fmt_class}|{what}");
                if r.timed_out || r.stderr.contains("panicked at") {
                    o.fail(sig(if r.timed_out { "did not exit" } else { "panic" }), detail(json!({})));
                    return o;
                }
                if r.code != Some(0) {
                    let first = r.stderr.lines().next().unwrap_or("").to_string();
                    o.fail(sig(&format!("non-zero exit for a valid server|{}", crate::panics::normalise(&first))), detail(json!({})));
                    return o;
                }
                if out.trim().is_empty() {
                    o.fail(sig("exit 0 but nothing printed"), detail(json!({})));
                    return o;
                }
                match fmt {
                    "debug" => {}
                    "json" | "json-pretty" => {
                        match serde_json::from_str::<Value>(&out) {
                            Err(e) => {
                                o.fail(sig("not well-formed"), detail(json!({"parser": e.to_string()})));
                            }
                            Ok(mut v) => {
                                crate::util::normalise_sets(&mut v);
                                let mut path = String::new();
                                if !json_equiv(&expected, &v, &mut path) {
                                    o.fail(sig(&format!("values differ from the library's|{path}")), detail(json!({})));
                                }
                            }
                        }
                    }
                    "xml" => {
                        match xmlcheck::parse(out.trim_end_matches('\n')) {
                            Err(e) => {
                                let class = if e.contains("element name") || e.contains("start tag") || e.contains("end tag") { "not well-formed: element name" } else if e.contains("may not appear literally") { "not well-formed: restricted character" } else { "not well-formed" };
                                o.fail(sig(class), detail(json!({"parser": e})));
                            }
                            Ok(tree) => {
                                let want = Node::Element { name: "data".into(), key: None, children: to_nodes(None, &expected_for_xml) };
                                let (g, w) = (canon(&tree), canon(&want));
                                if g != w {
                                    let k = g.chars().zip(w.chars()).take_while(|(a, b)| a == b).count();
                                    let from = k.saturating_sub(120);
                                    o.fail(sig("values differ from the library's"), detail(json!({"got_at_first_difference": g.chars().skip(from).take(400).collect::<String>(), "want_at_first_difference": w.chars().skip(from).take(400).collect::<String>()})));
                                }
                            }
                        }
                    }
                    _ => {
                        let text = out.trim();
                        let bytes = if fmt == "bson-hex" { hex::decode(text).ok() } else { base64::prelude::BASE64_STANDARD.decode(text).ok() };
                        let Some(bytes) = bytes else {
                            o.fail(sig("not valid hex / base64"), detail(json!({})));
                            return o;
                        };
                        match bson::Document::from_reader(&mut bytes.as_slice()) {
                            Err(e) => {
                                o.fail(sig("not well-formed"), detail(json!({"parser": e.to_string()})));
                            }
                            Ok(doc) => {
                                let mut v = bson::Bson::Document(doc).into_relaxed_extjson();
                                crate::util::normalise_sets(&mut v);
                                let mut path = String::new();
                                if !json_equiv(&expected, &v, &mut path) {
                                    o.fail(sig(&format!("values differ from the library's|{path}")), detail(json!({"decoded": crate::util::brief(&v)})));
                                }
                            }
                        }
                    }
                }
            }
        }
        o
    }
}
