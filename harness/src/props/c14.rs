//! C14 — definition-driven, per-game and protocol-level queries agree.

use gamedig::protocols::types::ProprietaryProtocol as P;
use gamedig::protocols::valve::GatheringSettings;
use gamedig::protocols::{gamespy, quake, Protocol};
use gamedig::GAMES;
use proptest::prelude::*;
use serde::{Deserialize, Serialize};
use serde_json::{json, Value};

use crate::entries::{family_of_game, scripted_game_ids, Entry, Family};
use crate::models::family::{fam_state, FamState};
use crate::models::fault::{Fault, Faulty};
use crate::models::valve::EngineSel;
use crate::props::c02::set_appid;
use crate::registry::module_for;
use crate::runner::{sample_one, Outcome, Prop, Tier};
use crate::util::{brief, doc_ip};
use crate::wire::{hex, render_log, run_scripted, Ended, Ev, Run};

#[derive(Debug, Clone, Copy, PartialEq, Eq, Hash, Serialize, Deserialize)]
pub enum Behaviour {
    Valid,
    /// valve only: the server reports the dedicated id (if the game has one) / an id that is not expected
    DedicatedId,
    ForeignId,
    /// unit 1 / unit 2 (players / rules; rules / players for Unreal 2) does not answer
    Unit1Silent,
    Unit2Silent,
    Unit2Malformed,
    /// the first request gets a malformed reply
    Malformed,
    Silence,
}

const BEHAVIOURS: [Behaviour; 8] = [
    Behaviour::Valid,
    Behaviour::DedicatedId,
    Behaviour::ForeignId,
    Behaviour::Unit1Silent,
    Behaviour::Unit2Silent,
    Behaviour::Unit2Malformed,
    Behaviour::Malformed,
    Behaviour::Silence,
];

#[derive(Debug, Clone, Serialize, Deserialize)]
pub struct Case {
    pub game: String,
    pub port: Option<u16>,
    pub behaviour: Behaviour,
    pub idx: u64,
    /// extra request settings for the generic path (None: the three-path comparison without settings)
    #[serde(default)]
    pub extra: Option<ExtraCase>,
    /// timeout settings with this retry count are passed (None: no timeout settings); with them the first request of the exchange is lost once
    #[serde(default)]
    pub retries: Option<u8>,
}

/// Extra request settings: each member given or left out (toggles 0 skip, 1 try, 2 enforce).
#[derive(Debug, Clone, Serialize, Deserialize)]
pub struct ExtraCase {
    pub hostname: Option<String>,
    pub protocol_version: Option<i32>,
    pub players: Option<u8>,
    pub rules: Option<u8>,
    pub check: Option<bool>,
}

fn engine_sel(e: &gamedig::protocols::valve::Engine) -> EngineSel {
    use gamedig::protocols::valve::Engine;
    match e {
        Engine::GoldSrc(f) => EngineSel::GoldSrc(*f),
        Engine::Source(None) => EngineSel::SourceNone,
        Engine::Source(Some((2400, None))) => EngineSel::Ship,
        Engine::Source(Some((240, None))) => EngineSel::Css,
        Engine::Source(Some((632_360, None))) => EngineSel::Ror2,
        Engine::Source(Some((a, d))) => EngineSel::Source(*a, *d),
    }
}

/// Path C: the protocol's own query function with the definition's parameters.
pub fn protocol_entry(game: &str) -> Option<Entry> {
    let g = GAMES.get(game)?;
    Some(match &g.protocol {
        Protocol::Valve(e) => {
            let gs: GatheringSettings = g.request_settings.clone().into();
            Entry::Valve { engine: engine_sel(e), players: gs.players as u8, rules: gs.rules as u8, check: gs.check_app_id }
        }
        Protocol::Gamespy(gamespy::GameSpyVersion::One) => Entry::Gs1,
        Protocol::Gamespy(gamespy::GameSpyVersion::Two) => Entry::Gs2,
        Protocol::Gamespy(gamespy::GameSpyVersion::Three) => Entry::Gs3,
        Protocol::Quake(quake::QuakeVersion::One) => Entry::Quake(1),
        Protocol::Quake(quake::QuakeVersion::Two) => Entry::Quake(2),
        Protocol::Quake(quake::QuakeVersion::Three) => Entry::Quake(3),
        Protocol::Unreal2 => Entry::Unreal2 { players: 1, rules: 2 },
        Protocol::PROPRIETARY(p) => {
            match p {
                P::TheShip => Entry::TheShip,
                P::Minecraft(None) => Entry::McAuto,
                P::Minecraft(Some(gamedig::games::minecraft::Server::Java)) => Entry::McJava,
                P::Minecraft(Some(gamedig::games::minecraft::Server::Bedrock)) => Entry::McBedrock,
                P::Minecraft(Some(gamedig::games::minecraft::Server::Legacy(l))) => {
                    Entry::McLegacySpecific(match l {
                        gamedig::games::minecraft::LegacyGroup::V1_6 => 0,
                        gamedig::games::minecraft::LegacyGroup::V1_4 => 1,
                        gamedig::games::minecraft::LegacyGroup::VB1_8 => 2,
                    })
                }
                P::FFOW => Entry::Ffow,
                P::JC2M => Entry::Jc2m,
                P::Savage2 => Entry::Savage2,
                P::Mindustry => Entry::Mindustry,
                P::Eco => return None,
            }
        }
    })
}

/// Strip the variant tags the generic response is wrapped in.
fn unwrap_variant(mut v: Value) -> Value {
    for _ in 0 .. 2 {
        let inner = match &v {
            Value::Object(m) if m.len() == 1 => {
                let (k, x) = m.iter().next().unwrap();
                if k.chars().next().map(|c| c.is_ascii_uppercase()).unwrap_or(false) && x.is_object() {
                    Some(x.clone())
                } else {
                    None
                }
            }
            _ => None,
        };
        match inner {
            Some(x) => v = x,
            None => break,
        }
    }
    v
}

/// The documented flattening of a Valve protocol response into the per-game response.
fn valve_to_game(v: &Value) -> Value {
    let info = &v["info"];
    let ed = &info["extra_data"];
    json!({
        "protocol": info["protocol_version"], "name": info["name"], "map": info["map"], "game": info["game_mode"], "appid": info["appid"],
        "players_online": info["players_online"],
        "players_details": v["players"].as_array().map(|a| a.iter().map(|p| json!({"name": p["name"], "score": p["score"], "duration": p["duration"]})).collect::<Vec<_>>()).unwrap_or_default(),
        "players_maximum": info["players_maximum"], "players_bots": info["players_bots"], "server_type": info["server_type"],
        "has_password": info["has_password"], "vac_secured": info["vac_secured"], "version": info["game_version"],
        "port": ed["port"], "steam_id": ed["steam_id"], "tv_port": ed["tv_port"], "tv_name": ed["tv_name"], "keywords": ed["keywords"],
        "rules": if v["rules"].is_object() { v["rules"].clone() } else { json!({}) },
    })
}

fn wire_of(run: &Run<Value>) -> Vec<String> {
    run.log
        .iter()
        .filter_map(|e| {
            match e {
                Ev::Open { proto, peer, .. } => Some(format!("open {proto:?} {peer}")),
                Ev::Send { data, .. } => Some(format!("send {}", hex(data))),
                _ => None,
            }
        })
        .collect()
}

/// The first place where two wires part, without addresses and payload tails: `open Udp :25565 vs open Udp :19132`.
/// (Part of the violation signature, so that a known difference does not hide a different one of the same game.)
fn first_difference(a: &[String], b: &[String], given: Option<u16>) -> String {
    let brief = |l: Option<&String>| -> String {
        match l {
            None => "<nothing>".into(),
            Some(l) if l.starts_with("open ") => {
                let mut it = l.split(' ');
                let (_, proto, peer) = (it.next(), it.next().unwrap_or(""), it.next().unwrap_or(""));
                let port = peer.rsplit(':').next().unwrap_or("");
                if given.map(|g| g.to_string()) == Some(port.to_string()) { format!("open {proto} :<given port>") } else { format!("open {proto} :{port}") }
            }
            Some(l) => l.chars().take(5 + 8).collect(),
        }
    };
    let i = a.iter().zip(b.iter()).take_while(|(x, y)| x == y).count();
    format!("{} vs {}", brief(a.get(i)), brief(b.get(i)))
}

fn outcome_of(run: &Run<Value>) -> Result<Value, String> {
    match &run.ended {
        Ended::Ok(v) => Ok(v.clone()),
        Ended::Err(k) => Err(format!("{k:?}")),
        Ended::Panic(p) => Err(format!("panic: {}", p.class())),
    }
}

static ECO_LOCK: std::sync::Mutex<()> = std::sync::Mutex::new(());

/// Which loopback port (of the definition's default, the documented default, 3000, 3001) an Eco query without a port connects to.
/// None: the ports could not all be bound here (the comparison is skipped).
pub fn eco_destination_without_port(via_generic: bool) -> Option<Vec<u16>> {
    let g = gamedig::GAMES.get("eco")?;
    let lo: std::net::IpAddr = std::net::Ipv4Addr::LOCALHOST.into();
    let mut ports = vec![g.default_port, crate::default_ports::default_port("eco").unwrap_or(0), 3000, 3001];
    ports.sort();
    ports.dedup();
    let _guard = ECO_LOCK.lock();
    let listeners: Vec<(u16, std::net::TcpListener)> = ports.iter().filter_map(|p| std::net::TcpListener::bind((lo, *p)).ok().map(|l| (*p, l))).collect();
    if listeners.len() != ports.len() {
        return None;
    }
    for (_, l) in &listeners {
        let _ = l.set_nonblocking(true);
    }
    let t = gamedig::protocols::types::TimeoutSettings::new(Some(std::time::Duration::from_millis(300)), Some(std::time::Duration::from_millis(300)), Some(std::time::Duration::from_millis(300)), 0).ok();
    Some(std::thread::scope(|s| {
        let h = s.spawn(|| {
            let deadline = std::time::Instant::now() + std::time::Duration::from_millis(1500);
            let mut got = Vec::new();
            while std::time::Instant::now() < deadline && got.is_empty() {
                for (p, l) in &listeners {
                    if let Ok((stream, _)) = l.accept() {
                        drop(stream);
                        got.push(*p);
                    }
                }
                std::thread::sleep(std::time::Duration::from_millis(5));
            }
            got
        });
        let _ = crate::panics::catch(|| {
            if via_generic {
                gamedig::query_with_timeout(g, &lo, None, t).map(|_| ())
            } else {
                gamedig::games::eco::query_with_timeout(&lo, None, &t).map(|_| ())
            }
        });
        h.join().unwrap_or_default()
    }))
}

pub struct C14;

fn server_for(game: &str, fam: Family, behaviour: Behaviour, idx: u64) -> Box<dyn crate::wire::Responder> {
    let mut st = sample_one(&fam_state(fam), "C14-state", idx);
    if let (FamState::Valve(v), Family::Valve(engine)) = (&mut st, fam) {
        if let Some((main, ded)) = engine.expected_ids() {
            let id = match behaviour {
                Behaviour::DedicatedId => ded.unwrap_or(main),
                Behaviour::ForeignId => main.wrapping_add(7),
                _ => main,
            };
            set_appid(v, id);
        }
        if game == "battalion1944" {
            v.rules.push(("bat_name_s".into(), "Battalion server".into()));
            v.rules.push(("bat_max_players_i".into(), "16".into()));
        }
    }
    let inner = st.responder();
    let plan = |f: Fault| vec![f; 8];
    match behaviour {
        Behaviour::Unit1Silent => Box::new(Faulty::new(inner, fam, 1, 0, plan(Fault::Silent)).0),
        Behaviour::Unit2Silent => Box::new(Faulty::new(inner, fam, 2, 0, plan(Fault::Silent)).0),
        Behaviour::Unit2Malformed => Box::new(Faulty::new(inner, fam, 2, 0, plan(Fault::Malformed)).0),
        Behaviour::Malformed => Box::new(Faulty::new(inner, fam, 0, 0, plan(Fault::Malformed)).0),
        Behaviour::Silence => {
            let a = Faulty::new(inner, fam, 0, 0, plan(Fault::Silent)).0;
            Box::new(a)
        }
        _ => inner,
    }
}

impl Prop for C14 {
    type Case = Case;

    fn id(&self) -> &'static str { "C14" }

    fn rule(&self) -> String {
        "every entry of the definitions table (enumerated; eco, which is HTTP, is checked for its port only) x port omitted / given x 8 server behaviours (valid; \
         dedicated app id; foreign app id; second or third request unit silent; third unit malformed; first reply malformed; silence) x several server states. The \
         same scripted server is queried through (A) games::query_with_timeout_and_extra_settings, (B) the game's dedicated module function and (C) the protocol's \
         query function with the definition's parameters. Oracle (differential): identical connection destinations and request bytes in the same order, and equal \
         outcomes: the same error kind, or equal responses after the documented conversion (generic variant unwrapped; valve::Response flattened to game::Response). \
         Extra request settings (each of host name, protocol version, gather players, gather rules, app-id check given or left out; all 32 combinations enumerated for six games, random otherwise): the generic path with them must send the same bytes and give the same outcome as the protocol function with the equivalent settings (documented defaults for the members left out; for minecraftjava also the module function), and for protocols that ignore them the same as the generic path without them. Timeout settings with a retry count 0-2 for every table game, against a server that loses the first request once: the generic path and the protocol function must send the same requests (both try again, or neither) and give the same outcome. non-trivial = port omitted or a non-valid behaviour; distinct = digest of the case"
            .into()
    }

    fn assumptions(&self) -> Vec<String> {
        vec!["table id -> module function is the harness' registry (same pretty name in games/definitions.rs and the game module files)".into()]
    }

    fn random_cases(&self, tier: Tier) -> u64 { tier.pick(2_000, 200_000) }

    fn strategy(&self, _tier: Tier) -> BoxedStrategy<Case> {
        let ids: Vec<String> = scripted_game_ids().into_iter().map(|s| s.to_string()).collect();
        let plain = (prop::sample::select(ids.clone()), prop::option::of(any::<u16>()), prop::sample::select(BEHAVIOURS.to_vec()), 0u64 .. 4096)
            .prop_map(|(game, port, behaviour, idx)| Case { game, port, behaviour, idx, extra: None, retries: None });
        // games whose protocol uses extra settings are drawn more often
        let mut weighted = ids.clone();
        for id in &ids {
            if matches!(family_of_game(id), Some(Family::Valve(_)) | Some(Family::Unreal2) | Some(Family::McJava) | Some(Family::McAuto)) {
                weighted.push(id.clone());
                weighted.push(id.clone());
            }
            if matches!(family_of_game(id), Some(Family::McJava) | Some(Family::McAuto)) {
                for _ in 0 .. 20 {
                    weighted.push(id.clone());
                }
            }
        }
        let extra = (
            prop::option::of(prop_oneof![Just("gamedig".to_string()), Just("mc.example.org".to_string()), Just(String::new()), "[a-z0-9.-]{1,40}", "\\PC{1,12}"]),
            prop::option::of(prop_oneof![Just(-1i32), Just(0), Just(47), Just(760), Just(i32::MAX), Just(i32::MIN), any::<i32>()]),
            prop::option::of(0u8 .. 3),
            prop::option::of(0u8 .. 3),
            prop::option::of(any::<bool>()),
        )
            .prop_map(|(hostname, protocol_version, players, rules, check)| ExtraCase { hostname, protocol_version, players, rules, check });
        let with_extra = (prop::sample::select(weighted), prop::option::of(any::<u16>()), prop::sample::select(BEHAVIOURS.to_vec()), 0u64 .. 4096, extra)
            .prop_map(|(game, port, behaviour, idx, extra)| Case { game, port, behaviour, idx, extra: Some(extra), retries: None });
        prop_oneof![1 => plain, 1 => with_extra].boxed()
    }

    fn enumerated<'a>(&'a self, tier: Tier, shard: usize, nshards: usize) -> Box<dyn Iterator<Item = Case> + 'a> {
        let nstates = tier.pick(3u64, 100);
        let mut v = Vec::new();
        let mut ids: Vec<&str> = GAMES.keys().copied().collect();
        ids.sort();
        for id in ids {
            for port in [None, Some(40_123u16)] {
                for b in BEHAVIOURS {
                    for idx in 0 .. nstates {
                        v.push(Case { game: id.to_string(), port, behaviour: b, idx, extra: None, retries: None });
                    }
                }
            }
        }
        // timeout settings with a retry count: the first request is lost once, every path has to try again (or none of them)
        {
            let mut ids: Vec<&str> = GAMES.keys().copied().collect();
            ids.sort();
            for (i, id) in ids.iter().enumerate() {
                for r in 0u8 ..= 2 {
                    // quick: one retry count per game, except for the few games with a protocol of their own (all counts)
                    let own_protocol = matches!(GAMES.get(id).map(|g| &g.protocol), Some(Protocol::PROPRIETARY(_)));
                    if tier == Tier::Quick && !own_protocol && (i + r as usize) % 3 != 0 {
                        continue;
                    }
                    v.push(Case { game: id.to_string(), port: if i % 2 == 0 { None } else { Some(40_123) }, behaviour: Behaviour::Valid, idx: r as u64, extra: None, retries: Some(r) });
                }
            }
        }
        // extra settings: every given / left-out combination of the five members, for one game per protocol that uses them and one that ignores them
        for game in ["teamfortress2", "killingfloor", "minecraftjava", "minecraft", "q3a", "ohd"] {
            if !GAMES.contains_key(game) {
                continue;
            }
            for mask in 0u8 .. 32 {
                for (k, b) in [Behaviour::Valid, BEHAVIOURS[3], BEHAVIOURS[5]].into_iter().enumerate() {
                    let extra = ExtraCase {
                        hostname: (mask & 1 != 0).then(|| "mc.example.org".to_string()),
                        protocol_version: (mask & 2 != 0).then_some(760),
                        players: (mask & 4 != 0).then_some(((mask as usize + k) % 3) as u8),
                        rules: (mask & 8 != 0).then_some(((mask as usize / 3 + k) % 3) as u8),
                        check: (mask & 16 != 0).then_some(mask % 3 == 0),
                    };
                    v.push(Case { game: game.to_string(), port: if mask % 2 == 0 { None } else { Some(40_123) }, behaviour: b, idx: mask as u64 % nstates, extra: Some(extra), retries: None });
                }
            }
        }
        Box::new(v.into_iter().enumerate().filter(move |(i, _)| i % nshards == shard).map(|(_, c)| c))
    }

    fn exhaustive_subspaces(&self, tier: Tier) -> Vec<String> {
        vec![format!("every table entry x port omitted/given x 8 behaviours x {} states", tier.pick(3, 100))]
    }

    fn run(&self, case: &Case) -> Outcome {
        let mut o = Outcome::new();
        let game = case.game.as_str();
        let Some(g) = GAMES.get(game) else {
            o.fail(format!("C14|{game}|table|game disappeared from the table"), json!({}));
            return o;
        };
        let fam = family_of_game(game).unwrap_or(Family::Http);
        o.label(format!("behaviour={:?}", case.behaviour));
        o.label(if case.port.is_some() { "port-given" } else { "port-omitted" });
        o.nontrivial = case.port.is_none() || case.behaviour != Behaviour::Valid;
        let module = module_for(game);
        if fam == Family::Http {
            // eco is HTTP (ureq): observe on real loopback listeners which port each path connects to when none is given
            o.label("eco-default-port");
            if case.port.is_some() || case.behaviour != Behaviour::Valid || case.idx != 0 {
                o.nontrivial = false;
                return o;
            }
            let lo: std::net::IpAddr = std::net::Ipv4Addr::LOCALHOST.into();
            let table = g.default_port;
            let documented = crate::default_ports::default_port("eco").unwrap_or(0);
            let mut ports = vec![table, documented, 3000, 3001];
            ports.sort();
            ports.dedup();
            let _guard = ECO_LOCK.lock();
            let listeners: Vec<(u16, std::net::TcpListener)> = ports.iter().filter_map(|p| std::net::TcpListener::bind((lo, *p)).ok().map(|l| (*p, l))).collect();
            if listeners.len() != ports.len() {
                o.excluded = Some("eco default-port comparison skipped: loopback ports 3000/3001 are not free".into());
                o.nontrivial = false;
                return o;
            }
            for (_, l) in &listeners {
                let _ = l.set_nonblocking(true);
            }
            let hit = |f: &dyn Fn()| -> Vec<u16> {
                // run the query on a helper thread (it fails: nobody answers), then see which listener has a pending connection
                std::thread::scope(|s| {
                    let h = s.spawn(|| {
                        let deadline = std::time::Instant::now() + std::time::Duration::from_millis(1500);
                        let mut got = Vec::new();
                        while std::time::Instant::now() < deadline && got.is_empty() {
                            for (p, l) in &listeners {
                                if let Ok((stream, _)) = l.accept() {
                                    drop(stream);
                                    got.push(*p);
                                }
                            }
                            std::thread::sleep(std::time::Duration::from_millis(5));
                        }
                        got
                    });
                    f();
                    h.join().unwrap_or_default()
                })
            };
            let t = gamedig::protocols::types::TimeoutSettings::new(Some(std::time::Duration::from_millis(300)), Some(std::time::Duration::from_millis(300)), Some(std::time::Duration::from_millis(300)), 0).ok();
            let a = hit(&|| {
                let _ = crate::panics::catch(|| gamedig::query_with_timeout(g, &lo, None, t).map(|_| ()));
            });
            let b = hit(&|| {
                let _ = crate::panics::catch(|| gamedig::games::eco::query_with_timeout(&lo, None, &t).map(|_| ()));
            });
            if a != b {
                o.fail("C14|eco|wire differs|generic vs module|destination", json!({"generic_connects_to": a, "module_connects_to": b, "table_default": table}));
            } else if a != vec![table] {
                o.fail("C14|eco|default port|the destination is not the definition's default port", json!({"connects_to": a, "definition_default": table}));
            } else if a != vec![documented] {
                o.fail("C14|eco|default port|not the documented default", json!({"connects_to": a, "documented": documented}));
            }
            return o;
        }
        if module.is_none() {
            o.fail(format!("C14|{game}|registry|no module function known for this table id"), json!({}));
            return o;
        }
        let Some(pe) = protocol_entry(game) else { return o };
        let ip = doc_ip();
        if let Some(r) = case.retries {
            // ---- timeout settings with a retry count; the first request of the exchange is lost once
            let r = r as usize;
            o.label(format!("with-timeout-settings retries={r}"));
            o.nontrivial = true;
            let lost_once = |fam: Family| -> Box<dyn crate::wire::Responder> {
                Box::new(Faulty::new(server_for(game, fam, Behaviour::Valid, case.idx), fam, 0, 0, vec![Fault::Silent]).0)
            };
            let a_entry = Entry::Generic { game: game.to_string(), extra: None };
            let run_a = run_scripted(lost_once(fam), || a_entry.call_json_opt(&ip, case.port, Some(r)));
            let c_port = case.port.unwrap_or(g.default_port);
            let run_c = if game == "mindustry" {
                // the protocol's own function (the module wrapper is what the generic path calls)
                let addr = std::net::SocketAddr::new(ip, c_port);
                let t = crate::entries::timeout(r);
                run_scripted(lost_once(fam), || gamedig::games::mindustry::protocol::query_with_retries(&addr, &t).map(|v| { let mut j = serde_json::to_value(&v).unwrap_or(Value::Null); crate::util::normalise_sets(&mut j); j }))
            } else {
                run_scripted(lost_once(fam), || pe.call_json_opt(&ip, Some(c_port), Some(r)))
            };
            let (wa, wc) = (wire_of(&run_a), wire_of(&run_c));
            let detail = |info: Value| json!({"game": game, "port": case.port, "retries": r, "info": info,
                "generic": {"result": run_a.ended.kind_str(), "wire": wa}, "protocol": {"result": run_c.ended.kind_str(), "wire": wc}});
            if wa != wc {
                o.fail(format!("C14|{game}|with retries|wire differs|generic vs protocol"), detail(json!({})));
                return o;
            }
            let ra = outcome_of(&run_a).map(unwrap_variant);
            let rc = outcome_of(&run_c);
            if ra != rc {
                o.fail(format!("C14|{game}|with retries|outcome differs|generic vs protocol"), detail(json!({"generic": ra.as_ref().map(brief).map_err(|e| e.clone()), "protocol": rc.as_ref().map(brief).map_err(|e| e.clone())})));
            }
            return o;
        }
        if let Some(x) = &case.extra {
            // ---- extra request settings: the generic path with them == the protocol function (and, for Java, the module) with the equivalent settings
            use gamedig::protocols::types::{ExtraRequestSettings, GatherToggle};
            let tog = |v: u8| match v { 0 => GatherToggle::Skip, 1 => GatherToggle::Try, _ => GatherToggle::Enforce };
            let mut extra = ExtraRequestSettings::default();
            if let Some(h) = &x.hostname { extra = extra.set_hostname(h.clone()); }
            if let Some(v) = x.protocol_version { extra = extra.set_protocol_version(v); }
            if let Some(p) = x.players { extra = extra.set_gather_players(tog(p)); }
            if let Some(r) = x.rules { extra = extra.set_gather_rules(tog(r)); }
            if let Some(c) = x.check { extra = extra.set_check_app_id(c); }
            o.label(format!("extra-settings:{}", match fam { Family::Valve(_) => "valve", Family::Unreal2 => "unreal2", Family::McJava | Family::McAuto => "minecraft-java", _ => "ignored-by-protocol" }));
            o.label(format!("extra given: host={} version={} players={} rules={} check={}", x.hostname.is_some(), x.protocol_version.is_some(), x.players.is_some(), x.rules.is_some(), x.check.is_some()));
            o.nontrivial = true;
            let generic = |extra: Option<ExtraRequestSettings>| {
                gamedig::query_with_timeout_and_extra_settings(g, &ip, case.port, None, extra).map(|r| {
                    let mut j = serde_json::to_value(r.as_original()).unwrap_or(Value::Null);
                    crate::util::normalise_sets(&mut j);
                    j
                })
            };
            let run_a = run_scripted(server_for(game, fam, case.behaviour, case.idx), || generic(Some(extra.clone())));
            let c_port = case.port.unwrap_or(g.default_port);
            let addr = std::net::SocketAddr::new(ip, c_port);
            let rs = gamedig::games::minecraft::RequestSettings { hostname: x.hostname.clone().unwrap_or_else(|| "gamedig".into()), protocol_version: x.protocol_version.unwrap_or(-1) };
            let json_of = |r: gamedig::GDResult<gamedig::games::minecraft::JavaResponse>| r.map(|v| { let mut j = serde_json::to_value(&v).unwrap_or(Value::Null); crate::util::normalise_sets(&mut j); j });
            // equivalent call at protocol level
            let (run_c, what) = match (&pe, game) {
                (Entry::Valve { engine, .. }, _) => {
                    // documented defaults of valve::GatheringSettings: Try, Try, check
                    let e = Entry::Valve { engine: *engine, players: x.players.unwrap_or(1), rules: x.rules.unwrap_or(1), check: x.check.unwrap_or(true) };
                    (run_scripted(server_for(game, fam, case.behaviour, case.idx), || e.call_json_opt(&ip, Some(c_port), None)), "protocol function with the same gather settings")
                }
                (Entry::Unreal2 { .. }, _) => {
                    // documented defaults of unreal2::GatheringSettings: players Try, mutators and rules Enforce
                    let e = Entry::Unreal2 { players: x.players.unwrap_or(1), rules: x.rules.unwrap_or(2) };
                    (run_scripted(server_for(game, fam, case.behaviour, case.idx), || e.call_json_opt(&ip, Some(c_port), None)), "protocol function with the same gather settings")
                }
                (Entry::McJava, _) => (run_scripted(server_for(game, fam, case.behaviour, case.idx), || json_of(gamedig::games::minecraft::protocol::query_java(&addr, None, Some(rs.clone())))), "protocol function with the same request settings"),
                (Entry::McAuto, _) => (run_scripted(server_for(game, fam, case.behaviour, case.idx), || json_of(gamedig::games::minecraft::protocol::query(&addr, None, Some(rs.clone())))), "protocol function with the same request settings"),
                // every other protocol ignores the extra settings
                _ => (run_scripted(server_for(game, fam, case.behaviour, case.idx), || generic(None)), "generic path without extra settings"),
            };
            let (wa, wc) = (wire_of(&run_a), wire_of(&run_c));
            let detail = |info: Value| json!({"game": game, "port": case.port, "behaviour": format!("{:?}", case.behaviour), "extra": format!("{x:?}"), "compared_with": what, "info": info,
                "generic": {"result": run_a.ended.kind_str(), "wire": wa}, "other": {"result": run_c.ended.kind_str(), "wire": wc}});
            if wa != wc {
                o.fail(format!("C14|{game}|extra settings|wire differs|generic vs {}", if what.starts_with("protocol") { "protocol" } else { "generic without settings" }), detail(json!({})));
                return o;
            }
            let ra = outcome_of(&run_a).map(unwrap_variant);
            let rc = outcome_of(&run_c).map(|v| if what.starts_with("generic") { unwrap_variant(v) } else { v });
            if ra != rc {
                o.fail(format!("C14|{game}|extra settings|outcome differs|generic vs {}", if what.starts_with("protocol") { "protocol" } else { "generic without settings" }), detail(json!({"generic": ra.as_ref().map(brief).map_err(|e| e.clone()), "other": rc.as_ref().map(brief).map_err(|e| e.clone())})));
                return o;
            }
            // the Java module takes request settings too
            if game == "minecraftjava" {
                let run_b = run_scripted(server_for(game, fam, case.behaviour, case.idx), || json_of(gamedig::games::minecraft::query_java(&ip, case.port, Some(rs.clone()))));
                if wire_of(&run_b) != wa {
                    o.fail(format!("C14|{game}|extra settings|wire differs|generic vs module"), detail(json!({"module_wire": wire_of(&run_b)})));
                } else if outcome_of(&run_b) != ra {
                    o.fail(format!("C14|{game}|extra settings|outcome differs|generic vs module"), detail(json!({})));
                }
            }
            return o;
        }
        let a_entry = Entry::Generic { game: game.to_string(), extra: None };
        let b_entry = Entry::Module { game: game.to_string() };
        let run_a = run_scripted(server_for(game, fam, case.behaviour, case.idx), || a_entry.call_json_opt(&ip, case.port, None));
        let run_b = run_scripted(server_for(game, fam, case.behaviour, case.idx), || b_entry.call_json_opt(&ip, case.port, None));
        let c_port = case.port.unwrap_or(g.default_port);
        let run_c = run_scripted(server_for(game, fam, case.behaviour, case.idx), || pe.call_json_opt(&ip, Some(c_port), None));
        let (wa, wb, wc) = (wire_of(&run_a), wire_of(&run_b), wire_of(&run_c));
        let detail = |extra: Value| {
            json!({"game": game, "port": case.port, "behaviour": format!("{:?}", case.behaviour), "info": extra,
                   "generic": {"result": run_a.ended.kind_str(), "wire": wa}, "module": {"result": run_b.ended.kind_str(), "wire": wb}, "protocol": {"result": run_c.ended.kind_str(), "wire": wc}})
        };
        // documented default port
        if case.port.is_none() {
            if let Some(Ev::Open { peer, .. }) = run_a.log.first() {
                if peer.port() != g.default_port {
                    o.fail(format!("C14|{game}|default port|the destination is not the definition's default port"), detail(json!({"used": peer.port(), "definition_default": g.default_port})));
                    return o;
                }
                if Some(peer.port()) != crate::default_ports::default_port(game) {
                    o.fail(format!("C14|{game}|default port|generic dispatch does not use the documented default"), detail(json!({"used": peer.port()})));
                    return o;
                }
            }
        }
        if wa != wb {
            let what = if wa.first() != wb.first() { "destination" } else { "requests" };
            o.fail(format!("C14|{game}|wire differs|generic vs module|{what}|{}", first_difference(&wa, &wb, case.port)), detail(json!({})));
            return o;
        }
        if wa != wc {
            o.fail(format!("C14|{game}|wire differs|generic vs protocol|requests|{}", first_difference(&wa, &wc, case.port)), detail(json!({})));
            return o;
        }
        let (ra, rb, rc) = (outcome_of(&run_a), outcome_of(&run_b), outcome_of(&run_c));
        let is_valve_module = matches!(module.as_ref().map(|m| &m.f), Some(crate::registry::ModuleFn::Valve(_))) || game == "battalion1944";
        let norm_a = ra.clone().map(unwrap_variant);
        let norm_c = rc.clone();
        if norm_a != norm_c {
            o.fail(format!("C14|{game}|outcome differs|generic vs protocol"), detail(json!({"generic": norm_a.as_ref().map(brief).map_err(|e| e.clone()), "protocol": norm_c.as_ref().map(brief).map_err(|e| e.clone())})));
            return o;
        }
        let a_as_b = if is_valve_module { norm_a.clone().map(|v| valve_to_game(&v)) } else { norm_a.clone() };
        if a_as_b != rb {
            let path = match (&a_as_b, &rb) {
                (Ok(x), Ok(y)) => crate::util::json_diff_path(x, y).unwrap_or_default(),
                (x, y) => format!("{} vs {}", x.as_ref().map(|_| "Ok").unwrap_or_else(|e| e), y.as_ref().map(|_| "Ok").unwrap_or_else(|e| e)),
            };
            o.fail(format!("C14|{game}|outcome differs|generic vs module|{path}"), detail(json!({"generic_converted": a_as_b.as_ref().map(brief).map_err(|e| e.clone()), "module": rb.as_ref().map(brief).map_err(|e| e.clone())})));
        }
        let _ = render_log;
        o
    }
}
