//! C01 (totality under hostile replies) and C13 (no reply-driven unbounded allocation):
//! shared case type, generators (structure-aware mutation of recorded valid exchanges,
//! magic-prefixed random bytes, pure random) and the hostile server.

use gamedig::verif_hook::Proto;
use proptest::prelude::*;
use proptest::sample::Index;
use serde::{Deserialize, Serialize};
use serde_json::json;
use std::cell::RefCell;
use std::net::SocketAddr;
use std::rc::Rc;

use crate::entries::{scripted_game_ids, Entry, Family};
use crate::models::gamespy::{gs1_state, gs2_state, gs3_state, DatagramServer, Gs3Server, GS1_REQUEST, GS2_REQUEST};
use crate::models::master::{MasterServer, Pages};
use crate::models::minecraft::{bedrock_status, java_status, legacy_status, McServer, McServerSpec};
use crate::models::misc::{ffow_state, jc2m_state, mindustry_state, savage2_state, FfowServer, MINDUSTRY_REQUEST};
use crate::models::quake as mq;
use crate::models::unreal2::{u2_state, U2Server};
use crate::models::valve::{state_for, ValveServer};
use crate::props::c02::{fit, set_appid};
use crate::registry::modules;
use crate::runner::{Outcome, Prop, Tier};
use crate::util::doc_ip;
use crate::wire::{hex, render_log, run_scripted, unhex, Ended, Outbox, Responder, Run};

#[derive(Debug, Clone, Serialize, Deserialize, PartialEq)]
pub struct TcpScript {
    pub data: String,
    pub close: bool,
    pub refuse: bool,
}

#[derive(Debug, Clone, Serialize, Deserialize)]
pub struct HCase {
    pub entry: Entry,
    pub retries: u8,
    /// datagrams already queued when a UDP socket is opened (first UDP connection only)
    pub udp_at_open: Vec<String>,
    /// datagrams released after the k-th UDP send (over all UDP connections)
    pub udp: Vec<Vec<String>>,
    /// per TCP connection, in open order
    pub tcp: Vec<TcpScript>,
    pub source: String,
}

// ---------------------------------------------------------------------------------
// hostile server

pub struct HostileServer {
    udp_at_open: Vec<Vec<u8>>,
    udp: Vec<Vec<Vec<u8>>>,
    tcp: Vec<TcpScript>,
    udp_sends: usize,
    udp_opens: usize,
    tcp_opens: usize,
}

impl HostileServer {
    pub fn new(c: &HCase) -> Self {
        Self {
            udp_at_open: c.udp_at_open.iter().map(|h| unhex(h)).collect(),
            udp: c.udp.iter().map(|g| g.iter().map(|h| unhex(h)).collect()).collect(),
            tcp: c.tcp.clone(),
            udp_sends: 0,
            udp_opens: 0,
            tcp_opens: 0,
        }
    }
}

impl Responder for HostileServer {
    fn on_open(&mut self, proto: Proto, _peer: &SocketAddr, out: &mut Outbox) {
        match proto {
            Proto::Udp => {
                if self.udp_opens == 0 {
                    for d in &self.udp_at_open {
                        out.datagram(d.clone());
                    }
                }
                self.udp_opens += 1;
            }
            Proto::Tcp => {
                let s = self.tcp.get(self.tcp_opens).cloned();
                self.tcp_opens += 1;
                match s {
                    Some(s) if s.refuse => out.fail(),
                    Some(s) => {
                        out.stream(&unhex(&s.data));
                        if s.close {
                            out.close();
                        }
                    }
                    None => {}
                }
            }
        }
    }

    fn on_send(&mut self, proto: Proto, _peer: &SocketAddr, _nth: usize, _data: &[u8], out: &mut Outbox) {
        if proto == Proto::Udp {
            if let Some(g) = self.udp.get(self.udp_sends) {
                for d in g {
                    out.datagram(d.clone());
                }
            }
            self.udp_sends += 1;
        }
    }
}

// ---------------------------------------------------------------------------------
// recording a valid exchange

#[derive(Default, Debug, Clone)]
pub struct Recording {
    pub udp: Vec<Vec<Vec<u8>>>,
    pub tcp: Vec<TcpScript>,
}

struct Recorder {
    inner: Box<dyn Responder>,
    rec: Rc<RefCell<Recording>>,
    tcp_conn_of: Vec<usize>,
}

impl Responder for Recorder {
    fn on_open(&mut self, proto: Proto, peer: &SocketAddr, out: &mut Outbox) {
        self.inner.on_open(proto, peer, out);
        if proto == Proto::Tcp {
            let mut r = self.rec.borrow_mut();
            r.tcp.push(TcpScript {
                data: hex(&out.conn.stream),
                close: out.conn.closed,
                refuse: out.fail,
            });
            self.tcp_conn_of.push(r.tcp.len() - 1);
        }
    }

    fn on_send(&mut self, proto: Proto, peer: &SocketAddr, nth: usize, data: &[u8], out: &mut Outbox) {
        match proto {
            Proto::Udp => {
                let before = out.conn.inbox.len();
                self.inner.on_send(proto, peer, nth, data, out);
                let new: Vec<Vec<u8>> = out.conn.inbox.iter().skip(before).cloned().collect();
                self.rec.borrow_mut().udp.push(new);
            }
            Proto::Tcp => {
                self.inner.on_send(proto, peer, nth, data, out);
                // the scripted form writes everything at open: fold what the server wrote into that connection's script
                let mut r = self.rec.borrow_mut();
                if let Some(last) = r.tcp.last_mut() {
                    last.data = hex(&out.conn.stream);
                    last.close = out.conn.closed;
                }
            }
        }
    }
}

#[derive(Clone)]
pub struct Maker(Option<Rc<dyn Fn() -> Box<dyn Responder>>>);

impl std::fmt::Debug for Maker {
    fn fmt(&self, f: &mut std::fmt::Formatter<'_>) -> std::fmt::Result { write!(f, "Maker({})", self.0.is_some()) }
}

/// A valid server for the family of `entry`, from a random state.
fn base_responder(family: Family) -> BoxedStrategy<Maker> {
    fn mk<F: Fn() -> Box<dyn Responder> + 'static>(f: F) -> Maker { Maker(Some(Rc::new(f))) }
    match family {
        Family::Valve(engine) => {
            state_for(engine)
                .prop_map(move |mut st| {
                    if let Some((id, _)) = engine.expected_ids() {
                        set_appid(&mut st, id);
                    }
                    // keep the exchange small: hostile cases do not need 255 players
                    st.players.truncate(12);
                    st.rules.truncate(12);
                    // Battalion 1944: the wrapper post-processes bat_* rules; give it some, with values it does and does not expect
                    if engine.expected_ids().map(|x| x.0) == Some(489_940) {
                        let d = crate::runner::digest(st.info.name.as_bytes());
                        let vals = ["", "Y", "N", "7", "255", "256", "-1", "x", " "];
                        for (i, key) in ["bat_max_players_i", "bat_player_count_s", "bat_has_password_s", "bat_name_s", "bat_gamemode_s", "bat_map_s"].iter().enumerate() {
                            if (d >> i) & 1 == 1 {
                                st.rules.push((key.to_string(), vals[((d >> (8 + 4 * i)) % 9) as usize].to_string()));
                            }
                        }
                    }
                    // the compressor co-process is not needed for the hostile corpus
                    for s in [&mut st.t_info, &mut st.t_players, &mut st.t_rules] {
                        if let crate::models::valve::Framing::Split { compressed, .. } = &mut s.framing {
                            *compressed = false;
                        }
                    }
                    fit(&mut st);
                    mk(move || Box::new(ValveServer::from_state(&st).expect("uncompressed")) as Box<dyn Responder>)
                })
                .boxed()
        }
        Family::Gs1 => {
            gs1_state()
                .prop_map(|st| mk(move || Box::new(DatagramServer { request: GS1_REQUEST.to_vec(), reply: st.encode() }) as Box<dyn Responder>))
                .boxed()
        }
        Family::Gs2 => {
            gs2_state()
                .prop_map(|st| mk(move || Box::new(DatagramServer { request: GS2_REQUEST.to_vec(), reply: vec![st.encode()] }) as Box<dyn Responder>))
                .boxed()
        }
        Family::Gs3 => {
            gs3_state()
                .prop_map(|st| mk(move || Box::new(Gs3Server::new(st.challenge, [0xFF, 0xFF, 0xFF, 0x01], st.datagrams())) as Box<dyn Responder>))
                .boxed()
        }
        Family::Quake(v) => {
            mq::state()
                .prop_map(move |mut st| {
                    st.version = v;
                    st.players.truncate(10);
                    if v == 1 {
                        for p in st.players.iter_mut() {
                            p.frags = (p.frags as u32 & 0xFFFF) as i32;
                        }
                    }
                    mk(move || Box::new(DatagramServer { request: mq::request(v), reply: vec![st.encode()] }) as Box<dyn Responder>)
                })
                .boxed()
        }
        Family::Unreal2 => u2_state().prop_map(|st| mk(move || Box::new(U2Server::from_state(&st)) as Box<dyn Responder>)).boxed(),
        Family::McAuto | Family::McJava | Family::McBedrock | Family::McLegacy(_) | Family::McLegacyAuto => {
            let speaks: BoxedStrategy<u8> = match family {
                Family::McJava => Just(0b00001u8).boxed(),
                Family::McBedrock => Just(0b00010u8).boxed(),
                Family::McLegacy(g) => Just(0b00100u8 << g).boxed(),
                Family::McLegacyAuto => (1u8 .. 8).prop_map(|b| b << 2).boxed(),
                _ => (0u8 .. 32).boxed(),
            };
            (speaks, java_status(), bedrock_status(), legacy_status(), any::<bool>())
                .prop_map(|(speaks, java, bedrock, legacy, close_on_unknown)| {
                    let spec = McServerSpec {
                        speaks,
                        java,
                        bedrock,
                        legacy,
                        close_on_unknown,
                    };
                    mk(move || Box::new(McServer::new(spec.clone())) as Box<dyn Responder>)
                })
                .boxed()
        }
        Family::Ffow => ffow_state().prop_map(|st| mk(move || Box::new(FfowServer::new(st.clone())) as Box<dyn Responder>)).boxed(),
        Family::Savage2 => {
            savage2_state()
                .prop_map(|st| mk(move || Box::new(DatagramServer { request: vec![0x01], reply: vec![st.datagram()] }) as Box<dyn Responder>))
                .boxed()
        }
        Family::Jc2m => {
            jc2m_state()
                .prop_map(|st| mk(move || Box::new(Gs3Server::new(st.challenge, [0xFF, 0xFF, 0xFF, 0x02], vec![st.datagram()])) as Box<dyn Responder>))
                .boxed()
        }
        Family::Mindustry => {
            mindustry_state()
                .prop_map(|st| mk(move || Box::new(DatagramServer { request: MINDUSTRY_REQUEST.to_vec(), reply: vec![st.datagram()] }) as Box<dyn Responder>))
                .boxed()
        }
        Family::Master => {
            prop::collection::vec(prop::collection::vec((any::<[u8; 4]>(), any::<u16>()), 0 .. 40), 1 .. 4)
                .prop_map(|pages| {
                    let p = Pages { pages };
                    mk(move || {
                        Box::new(MasterServer {
                            datagrams: p.datagrams(),
                            next: 0,
                            requests: Rc::new(RefCell::new(Vec::new())),
                        }) as Box<dyn Responder>
                    })
                })
                .boxed()
        }
        Family::Http => Just(Maker(None)).boxed(),
    }
}

fn record(entry: &Entry, make: &Rc<dyn Fn() -> Box<dyn Responder>>) -> Recording {
    let rec = Rc::new(RefCell::new(Recording::default()));
    let r = Recorder {
        inner: make(),
        rec: rec.clone(),
        tcp_conn_of: Vec::new(),
    };
    let ip = doc_ip();
    let _ = run_scripted(Box::new(r), || entry.call(&ip, 27015, 0));
    let out = rec.borrow().clone();
    out
}

// ---------------------------------------------------------------------------------
// mutations

#[derive(Debug, Clone)]
pub enum Mutation {
    Truncate(Index, Index),
    SetByte(Index, Index, u8),
    SetU16(Index, Index, u16, bool),
    SetU32(Index, Index, u32, bool),
    DeleteBytes(Index, Index, u8),
    InsertBytes(Index, Index, Vec<u8>),
    DropNul(Index, Index),
    DupDatagram(Index),
    DropDatagram(Index),
    SwapDatagrams(Index, Index),
    Splice(Index, Index, Index),
    Empty(Index),
    Huge(Index, u8),
    ReplaceRandom(Index, Vec<u8>),
    TcpNoClose(Index),
    TcpRefuse(Index),
    ChallengeStorm(Index, u8),
    PreQueue,
    DropGroup(Index),
    /// replace a run of ASCII digits (or its UTF-16BE form) by an extreme decimal number
    Decimal(Index, Index, Index),
}

fn extreme_u8() -> impl Strategy<Value = u8> { prop_oneof![prop::sample::select(vec![0u8, 1, 2, 0x0A, 0x1B, 0x41, 0x7F, 0x80, 0x81, 0xFE, 0xFF]), any::<u8>()] }
fn extreme_u16() -> impl Strategy<Value = u16> { prop_oneof![prop::sample::select(vec![0u16, 1, 0x7FFF, 0x8000, 0xFFFF, 0xFFFE, 256, 1024, 6144]), any::<u16>()] }
fn extreme_u32() -> impl Strategy<Value = u32> {
    prop_oneof![prop::sample::select(vec![0u32, 1, 0x7FFF_FFFF, 0x8000_0000, 0xFFFF_FFFF, 0xFFFF_FFFE, 0x0100_0000, 65536, 0x4000_0000]), any::<u32>()]
}

pub fn mutation(extreme_bias: bool) -> impl Strategy<Value = Mutation> {
    let ix = any::<Index>;
    let w = if extreme_bias { 12 } else { 4 };
    prop_oneof![
        6 => (ix(), ix()).prop_map(|(a, b)| Mutation::Truncate(a, b)),
        6 => (ix(), ix(), extreme_u8()).prop_map(|(a, b, v)| Mutation::SetByte(a, b, v)),
        w => (ix(), ix(), extreme_u16(), any::<bool>()).prop_map(|(a, b, v, be)| Mutation::SetU16(a, b, v, be)),
        w => (ix(), ix(), extreme_u32(), any::<bool>()).prop_map(|(a, b, v, be)| Mutation::SetU32(a, b, v, be)),
        3 => (ix(), ix(), 1u8..9).prop_map(|(a, b, n)| Mutation::DeleteBytes(a, b, n)),
        3 => (ix(), ix(), prop::collection::vec(extreme_u8(), 1..9)).prop_map(|(a, b, v)| Mutation::InsertBytes(a, b, v)),
        4 => (ix(), ix()).prop_map(|(a, b)| Mutation::DropNul(a, b)),
        2 => ix().prop_map(Mutation::DupDatagram),
        2 => ix().prop_map(Mutation::DropDatagram),
        2 => (ix(), ix()).prop_map(|(a, b)| Mutation::SwapDatagrams(a, b)),
        2 => (ix(), ix(), ix()).prop_map(|(a, b, c)| Mutation::Splice(a, b, c)),
        2 => ix().prop_map(Mutation::Empty),
        1 => (ix(), any::<u8>()).prop_map(|(a, f)| Mutation::Huge(a, f)),
        2 => (ix(), prop::collection::vec(any::<u8>(), 0..40)).prop_map(|(a, v)| Mutation::ReplaceRandom(a, v)),
        1 => ix().prop_map(Mutation::TcpNoClose),
        1 => ix().prop_map(Mutation::TcpRefuse),
        1 => (ix(), 1u8..6).prop_map(|(a, n)| Mutation::ChallengeStorm(a, n)),
        1 => Just(Mutation::PreQueue),
        1 => ix().prop_map(Mutation::DropGroup),
        w => (ix(), ix(), ix()).prop_map(|(a, b, c)| Mutation::Decimal(a, b, c)),
    ]
}

/// All datagram-like byte strings of a recording, addressable by one index.
fn slots(rec: &mut Recording) -> Vec<&mut Vec<u8>> { rec.udp.iter_mut().flat_map(|g| g.iter_mut()).collect() }

fn apply(rec: &mut Recording, tcp_bytes: &mut Vec<Vec<u8>>, pre: &mut bool, m: &Mutation) {
    // byte-level mutations address UDP datagrams and TCP streams alike
    let n_udp: usize = rec.udp.iter().map(|g| g.len()).sum();
    let n_all = n_udp + tcp_bytes.len();
    let mut with_buf = |which: &Index, f: &mut dyn FnMut(&mut Vec<u8>)| {
        if n_all == 0 {
            return;
        }
        let i = which.index(n_all);
        if i < n_udp {
            let mut s = slots(rec);
            f(s[i]);
        } else {
            f(&mut tcp_bytes[i - n_udp]);
        }
    };
    match m {
        Mutation::Truncate(a, b) => {
            with_buf(a, &mut |d| {
                if !d.is_empty() {
                    let at = b.index(d.len());
                    d.truncate(at);
                }
            })
        }
        Mutation::SetByte(a, b, v) => {
            with_buf(a, &mut |d| {
                if !d.is_empty() {
                    let at = b.index(d.len());
                    d[at] = *v;
                }
            })
        }
        Mutation::SetU16(a, b, v, be) => {
            with_buf(a, &mut |d| {
                if d.len() >= 2 {
                    let at = b.index(d.len() - 1);
                    let bytes = if *be { v.to_be_bytes() } else { v.to_le_bytes() };
                    d[at .. at + 2].copy_from_slice(&bytes);
                }
            })
        }
        Mutation::SetU32(a, b, v, be) => {
            with_buf(a, &mut |d| {
                if d.len() >= 4 {
                    let at = b.index(d.len() - 3);
                    let bytes = if *be { v.to_be_bytes() } else { v.to_le_bytes() };
                    d[at .. at + 4].copy_from_slice(&bytes);
                }
            })
        }
        Mutation::DeleteBytes(a, b, n) => {
            with_buf(a, &mut |d| {
                if !d.is_empty() {
                    let at = b.index(d.len());
                    let end = (at + *n as usize).min(d.len());
                    d.drain(at .. end);
                }
            })
        }
        Mutation::InsertBytes(a, b, v) => {
            with_buf(a, &mut |d| {
                let at = b.index(d.len() + 1);
                for (k, x) in v.iter().enumerate() {
                    d.insert(at + k, *x);
                }
            })
        }
        Mutation::DropNul(a, b) => {
            with_buf(a, &mut |d| {
                let nuls: Vec<usize> = d.iter().enumerate().filter(|(_, x)| **x == 0).map(|(i, _)| i).collect();
                if !nuls.is_empty() {
                    d.remove(nuls[b.index(nuls.len())]);
                }
            })
        }
        Mutation::Empty(a) => with_buf(a, &mut |d| d.clear()),
        Mutation::Huge(a, fill) => {
            with_buf(a, &mut |d| {
                let keep = d.len().min(64);
                d.truncate(keep);
                d.resize(65507, *fill);
            })
        }
        Mutation::ReplaceRandom(a, v) => with_buf(a, &mut |d| *d = v.clone()),
        Mutation::DupDatagram(a) => {
            if n_udp > 0 {
                let i = a.index(n_udp);
                let mut k = 0;
                for g in rec.udp.iter_mut() {
                    if i < k + g.len() {
                        let d = g[i - k].clone();
                        g.insert(i - k, d);
                        break;
                    }
                    k += g.len();
                }
            }
        }
        Mutation::DropDatagram(a) => {
            if n_udp > 0 {
                let i = a.index(n_udp);
                let mut k = 0;
                for g in rec.udp.iter_mut() {
                    if i < k + g.len() {
                        g.remove(i - k);
                        break;
                    }
                    k += g.len();
                }
            }
        }
        Mutation::SwapDatagrams(a, b) => {
            for g in rec.udp.iter_mut() {
                if g.len() >= 2 {
                    let (i, j) = (a.index(g.len()), b.index(g.len()));
                    g.swap(i, j);
                    break;
                }
            }
        }
        Mutation::Splice(a, b, c) => {
            if n_udp >= 1 {
                let src = {
                    let s = slots(rec);
                    s[b.index(n_udp)].clone()
                };
                let mut s = slots(rec);
                let d = &mut s[a.index(n_udp)];
                let at = c.index(d.len() + 1);
                d.truncate(at);
                let from = c.index(src.len() + 1);
                d.extend_from_slice(&src[from ..]);
            }
        }
        Mutation::TcpNoClose(a) => {
            if !rec.tcp.is_empty() {
                let i = a.index(rec.tcp.len());
                rec.tcp[i].close = false;
            }
        }
        Mutation::TcpRefuse(a) => {
            if !rec.tcp.is_empty() {
                let i = a.index(rec.tcp.len());
                rec.tcp[i].refuse = true;
            }
        }
        Mutation::ChallengeStorm(a, n) => {
            if !rec.udp.is_empty() {
                let i = a.index(rec.udp.len());
                for k in 0 .. *n {
                    rec.udp[i].insert(0, vec![0xFF, 0xFF, 0xFF, 0xFF, 0x41, k, 0x41, 0xFF, 0x00]);
                }
                // later groups: the client re-sends after every challenge, so shift copies in
                for _ in 0 .. *n {
                    let g = rec.udp[i].clone();
                    rec.udp.insert(i + 1, g);
                }
            }
        }
        Mutation::Decimal(a, b, c) => {
            const NUMS: [&str; 16] = [
                "0", "-1", "1", "255", "256", "65535", "65536", "2147483647", "2147483648", "4294967295", "4294967296", "99999999", "1000000000000",
                "18446744073709551615", "99999999999999999999999", "-2147483649",
            ];
            with_buf(a, &mut |d| {
                // runs of ASCII digits
                let mut runs: Vec<(usize, usize)> = Vec::new();
                let mut i = 0;
                while i < d.len() {
                    if d[i].is_ascii_digit() {
                        let st = i;
                        while i < d.len() && d[i].is_ascii_digit() {
                            i += 1;
                        }
                        runs.push((st, i));
                    } else {
                        i += 1;
                    }
                }
                if runs.is_empty() {
                    return;
                }
                let (st, en) = runs[b.index(runs.len())];
                let n = NUMS[c.index(NUMS.len())].as_bytes();
                // UTF-16BE text has a zero byte before every digit
                let wide = st > 0 && d[st - 1] == 0 && en - st == 1;
                let repl: Vec<u8> = if wide { n.iter().flat_map(|x| [*x, 0u8]).collect::<Vec<u8>>()[.. n.len() * 2 - 1].to_vec() } else { n.to_vec() };
                d.splice(st .. en, repl);
            })
        }
        Mutation::PreQueue => *pre = true,
        Mutation::DropGroup(a) => {
            if !rec.udp.is_empty() {
                let i = a.index(rec.udp.len());
                rec.udp[i].clear();
            }
        }
    }
}

fn magic_prefixes(f: Family) -> Vec<Vec<u8>> {
    match f {
        Family::Valve(_) | Family::Ffow => {
            vec![
                b"\xFF\xFF\xFF\xFF\x49".to_vec(),
                b"\xFF\xFF\xFF\xFF\x6D".to_vec(),
                b"\xFF\xFF\xFF\xFF\x41".to_vec(),
                b"\xFF\xFF\xFF\xFF\x44".to_vec(),
                b"\xFF\xFF\xFF\xFF\x45".to_vec(),
                b"\xFE\xFF\xFF\xFF".to_vec(),
                b"\xFE\xFF\xFF\xFF\x01\x00\x00\x80".to_vec(),
                b"\xFE\xFF\xFF\xFF\x01\x00\x00\x00\x02\x00\xE0\x04".to_vec(),
            ]
        }
        Family::Gs1 => vec![b"\\".to_vec(), b"\\hostname\\x\\queryid\\1.1".to_vec(), b"\\final\\\\queryid\\".to_vec()],
        Family::Gs2 => vec![vec![0, 0, 0, 0, 1], vec![0, 0, 0, 0, 1, b'a', 0, b'b', 0, 0, 0]],
        Family::Gs3 | Family::Jc2m => vec![vec![9, 0, 0, 0, 1], vec![0, 0, 0, 0, 1], b"\x00\x00\x00\x00\x01splitnum\x00".to_vec(), b"\x00\x00\x00\x00\x01splitnum\x00\x80\x00".to_vec()],
        Family::Quake(_) => vec![b"\xFF\xFF\xFF\xFFn".to_vec(), b"\xFF\xFF\xFF\xFFprint\n".to_vec(), b"\xFF\xFF\xFF\xFFstatusResponse\n".to_vec(), b"\xFF\xFF\xFF\xFFstatusResponse\n\\a\\b\n".to_vec()],
        Family::Unreal2 => vec![vec![0x80, 0, 0, 0, 0], vec![0x80, 0, 0, 0, 1], vec![0x80, 0, 0, 0, 2]],
        Family::McBedrock | Family::McAuto => {
            let mut v = vec![0x1C];
            v.extend_from_slice(&crate::models::minecraft::BEDROCK_REQUEST[1 .. 9]);
            v.extend_from_slice(&[0; 8]);
            v.extend_from_slice(&crate::models::minecraft::BEDROCK_REQUEST[9 .. 25]);
            vec![vec![0x1C], v]
        }
        Family::Master => vec![b"\xFF\xFF\xFF\xFF\x66\x0A".to_vec()],
        _ => vec![vec![]],
    }
}

fn tcp_prefixes() -> Vec<Vec<u8>> {
    vec![
        vec![],
        vec![0xFF],
        vec![0xFF, 0x00, 0x03, 0x00, 0xA7, 0x00, 0x31, 0x00, 0x00],
        vec![0xFF, 0xFF, 0xFF],
        vec![0x05, 0x00, 0x03],
        vec![0xFF, 0xFF, 0xFF, 0xFF, 0x0F, 0x00, 0xFF, 0xFF, 0xFF, 0xFF, 0x0F],
        vec![0x80, 0x80, 0x80, 0x80, 0x80, 0x80],
        vec![0x02, 0x00, 0x00],
    ]
}

pub fn entry_strategy() -> BoxedStrategy<Entry> {
    let ids: Vec<String> = scripted_game_ids().into_iter().map(|s| s.to_string()).collect();
    let mods: Vec<String> = modules().into_iter().filter(|m| m.id != "eco").map(|m| m.id.to_string()).collect();
    let tog = 0u8 .. 3;
    prop_oneof![
        6 => (crate::models::valve::engine_sel(), tog.clone(), tog.clone(), any::<bool>()).prop_map(|(engine, players, rules, check)| Entry::Valve { engine, players, rules, check }),
        2 => Just(Entry::Gs1), 1 => Just(Entry::Gs1Vars), 2 => Just(Entry::Gs2), 2 => Just(Entry::Gs3), 1 => Just(Entry::Gs3Vars),
        3 => (1u8..4).prop_map(Entry::Quake),
        3 => (tog.clone(), tog.clone()).prop_map(|(players, rules)| Entry::Unreal2 { players, rules }),
        2 => Just(Entry::McAuto), 3 => Just(Entry::McJava), 2 => Just(Entry::McBedrock), 1 => Just(Entry::McLegacy), 2 => (0u8..3).prop_map(Entry::McLegacySpecific),
        2 => Just(Entry::Ffow), 2 => Just(Entry::Savage2), 2 => Just(Entry::Jc2m), 2 => Just(Entry::Mindustry), 2 => Just(Entry::TheShip), 2 => Just(Entry::Battalion),
        1 => Just(Entry::MasterSpecific), 2 => Just(Entry::MasterQuery),
        8 => (prop::sample::select(ids), prop::option::of((tog.clone(), tog, any::<bool>()))).prop_map(|(game, extra)| Entry::Generic { game, extra }),
        5 => prop::sample::select(mods).prop_map(|game| Entry::Module { game }),
    ]
    .boxed()
}

fn random_datagram() -> impl Strategy<Value = Vec<u8>> {
    prop_oneof![
        6 => prop::collection::vec(any::<u8>(), 0..40),
        3 => prop::collection::vec(any::<u8>(), 40..600),
        1 => prop::collection::vec(any::<u8>(), 600..7000),
        1 => (any::<u8>(), 60000usize..65508).prop_map(|(b, n)| vec![b; n]),
        // a short head of extreme bytes (count / length positions) followed by one short token repeated up to the largest datagram:
        // the shape that makes a table / list parser iterate as often as a count field says
        2 => (
            prop::collection::vec(prop::sample::select(vec![0u8, 0, 1, 2, 0x7F, 0x80, 0xFF, 0xFF, b'\\', b'\n']), 0 .. 8),
            prop_oneof![
                prop::sample::select(vec![b"a\0".to_vec(), b"\0".to_vec(), b"\\a".to_vec(), b"\\a\\b".to_vec(), b"a\0\0".to_vec(), b"\x01a".to_vec(), b"1 1 \"a\"\n".to_vec(), b"\xFF".to_vec(), b"a;".to_vec(), b"\0\0\0\x01".to_vec()]),
                prop::collection::vec(any::<u8>(), 1 .. 5),
            ],
            prop_oneof![Just(1024usize), Just(1400), Just(6144), Just(65_507), 100usize .. 65_508],
        )
            .prop_map(|(mut head, token, n)| {
                while head.len() < n {
                    head.extend_from_slice(&token);
                }
                head.truncate(n);
                head
            }),
    ]
}


// ---------------------------------------------------------------------------------
// Eco (HTTP through ureq): hostile responses served by a real loopback HTTP server

#[derive(Debug, Clone)]
enum HttpMut {
    Truncate(prop::sample::Index),
    Overwrite(prop::sample::Index, Vec<u8>),
    Insert(prop::sample::Index, Vec<u8>),
    /// replace the n-th JSON scalar of the body by a token
    Token(prop::sample::Index, &'static str),
    /// replace EVERY number of the body by one large value that still fits its type (count fields that are only dangerous together)
    AllNumbers(&'static str),
    /// replace the value of a header / add one
    Header(&'static str, String),
    Status(String),
    Chunked(Vec<(String, Vec<u8>)>),
    DropBody,
}

const JSON_TOKENS: [&str; 22] = [
    "null", "true", "[]", "{}", "\"\"", "-1", "0", "1e999", "-1e999", "1e-999", "18446744073709551616", "-9223372036854775809", "4294967296", "2147483648", "0.5", "NaN",
    "\"\\ud800\"", "\"\\u0000\"", "[[[[[[[[[[[[[[[[[[[[[[[[[[[[[[[[[[[[[[[[[[[[[[[[[[[[[[[[[[[[[[[[[[[[[[[[[[[[[[[[[[[[[[[[[[[[[[[[[[[[[[[[[[[[[[[[[[[[[[[[[[[[[[[[[[[[[[[[[[[[",
    "{\"a\":{\"a\":{\"a\":{\"a\":{\"a\":{\"a\":{\"a\":{\"a\":1}}}}}}}}", "123456789012345678901234567890.123456789012345678901234567890e+300", "\"\u{FFFD}\"",
];

fn http_mutation() -> impl Strategy<Value = HttpMut> {
    let bytes = prop_oneof![prop::collection::vec(any::<u8>(), 1 .. 6), Just(b"\r\n".to_vec()), Just(b"\r\n\r\n".to_vec()), Just(vec![0u8]), Just(vec![0xFF, 0xFE])];
    let clen = prop_oneof![
        Just("0".to_string()), Just("1".to_string()), Just("-1".to_string()), Just("18446744073709551615".to_string()), Just("18446744073709551616".to_string()),
        Just("9223372036854775807".to_string()), Just("abc".to_string()), Just("".to_string()), Just("4096, 12".to_string()), (0u32 .. 100_000).prop_map(|n| n.to_string())
    ];
    let status = prop_oneof![
        Just("HTTP/1.1 200 OK".to_string()), Just("HTTP/1.0 200 OK".to_string()), Just("HTTP/1.1 204 No Content".to_string()), Just("HTTP/1.1 100 Continue".to_string()),
        Just("HTTP/1.1 301 Moved".to_string()), Just("HTTP/1.1 404 Not Found".to_string()), Just("HTTP/1.1 500 Oops".to_string()), Just("HTTP/1.1 999".to_string()),
        Just("HTTP/1.1 0 x".to_string()), Just("HTTP/9.9 200 OK".to_string()), Just("HTTP/1.1 200".to_string()), Just("HTTP/1.1".to_string()), Just("200 OK".to_string()),
        Just("ICY 200 OK".to_string()), Just("HTTP/1.1 2000000000000000000000 OK".to_string()), Just("HTTP/1.1 -200 OK".to_string()), "[ -~]{0,20}"
    ];
    let chunk = (prop_oneof![Just(None), Just(Some("0".to_string())), Just(Some("FFFFFFFFFFFFFFFF".to_string())), Just(Some("-1".to_string())), Just(Some("zz".to_string())), Just(Some("10000000000000000".to_string())), Just(Some("5;ext=1".to_string()))], prop::collection::vec(any::<u8>(), 0 .. 40))
        .prop_map(|(size, data)| (size.unwrap_or_else(|| format!("{:x}", data.len())), data));
    prop_oneof![
        3 => any::<prop::sample::Index>().prop_map(HttpMut::Truncate),
        3 => (any::<prop::sample::Index>(), bytes.clone()).prop_map(|(i, b)| HttpMut::Overwrite(i, b)),
        2 => (any::<prop::sample::Index>(), bytes).prop_map(|(i, b)| HttpMut::Insert(i, b)),
        6 => (any::<prop::sample::Index>(), prop::sample::select(JSON_TOKENS.to_vec())).prop_map(|(i, t)| HttpMut::Token(i, t)),
        1 => (any::<prop::sample::Index>(), prop::sample::select(vec!["4294967295", "2147483647", "50000000", "3000000"])).prop_map(|(i, t)| HttpMut::Token(i, t)),
        2 => prop::sample::select(vec!["4294967295", "2147483647", "50000000", "3000000", "65535"]).prop_map(HttpMut::AllNumbers),
        3 => clen.prop_map(|v| HttpMut::Header("Content-Length", v)),
        1 => prop_oneof![Just("chunked".to_string()), Just("gzip".to_string()), Just("chunked, chunked".to_string()), Just("identity".to_string())].prop_map(|v| HttpMut::Header("Transfer-Encoding", v)),
        1 => prop_oneof![Just("gzip".to_string()), Just("br".to_string()), Just("deflate".to_string())].prop_map(|v| HttpMut::Header("Content-Encoding", v)),
        1 => prop_oneof![Just("/".to_string()), Just("http://127.0.0.1:1/".to_string()), Just("".to_string()), Just("//".to_string()), Just("http://[::1".to_string()), "[ -~]{0,12}"].prop_map(|v| HttpMut::Header("Location", v)),
        1 => prop_oneof![Just("text/plain".to_string()), Just("application/json; charset=utf-16".to_string()), Just("application/json; charset=\u{1}".to_string()), Just("".to_string())].prop_map(|v| HttpMut::Header("Content-Type", v)),
        3 => status.prop_map(HttpMut::Status),
        2 => prop::collection::vec(chunk, 0 .. 4).prop_map(HttpMut::Chunked),
        1 => Just(HttpMut::DropBody),
    ]
}

/// Positions (start, end) of the scalar tokens of a JSON text (numbers, strings, literals), found by a simple scan.
fn json_scalars(body: &[u8]) -> Vec<(usize, usize)> {
    let mut out = Vec::new();
    let mut i = 0;
    let mut expect_value = false;
    while i < body.len() {
        match body[i] {
            b'"' => {
                let start = i;
                i += 1;
                while i < body.len() && body[i] != b'"' {
                    if body[i] == b'\\' {
                        i += 1;
                    }
                    i += 1;
                }
                i = (i + 1).min(body.len());
                if expect_value {
                    out.push((start, i));
                }
                expect_value = false;
            }
            b':' | b'[' | b',' => {
                expect_value = body[i] != b',' || expect_value_after_comma(body, i);
                i += 1;
            }
            b'-' | b'0' ..= b'9' | b't' | b'f' | b'n' => {
                let start = i;
                while i < body.len() && !matches!(body[i], b',' | b'}' | b']' | b' ' | b'\n') {
                    i += 1;
                }
                out.push((start, i));
                expect_value = false;
            }
            _ => i += 1,
        }
    }
    out
}

/// After a comma a value follows only inside an array (inside an object a key follows).
fn expect_value_after_comma(body: &[u8], at: usize) -> bool {
    let mut depth = 0i32;
    for j in (0 .. at).rev() {
        match body[j] {
            b']' | b'}' => depth += 1,
            b'[' => {
                if depth == 0 {
                    return true;
                }
                depth -= 1;
            }
            b'{' => {
                if depth == 0 {
                    return false;
                }
                depth -= 1;
            }
            _ => {}
        }
    }
    false
}

fn render_http(status: &str, headers: &[(String, String)], body: &[u8]) -> Vec<u8> {
    let mut v = format!("{status}\r\n").into_bytes();
    for (k, val) in headers {
        v.extend_from_slice(format!("{k}: {val}\r\n").as_bytes());
    }
    v.extend_from_slice(b"\r\n");
    v.extend_from_slice(body);
    v
}

pub fn eco_hcase() -> BoxedStrategy<HCase> {
    let entry = prop_oneof![Just(Entry::Generic { game: "eco".into(), extra: None }), Just(Entry::Module { game: "eco".into() })];
    let mutated = (entry.clone(), crate::models::eco::eco_state(), prop::collection::vec(http_mutation(), 1 .. 4), any::<bool>(), 0u8 .. 3).prop_map(|(entry, st, muts, refuse, retries)| {
        let mut status = "HTTP/1.1 200 OK".to_string();
        let mut body = st.body().into_bytes();
        let mut headers: Vec<(String, String)> = vec![("Content-Type".into(), "application/json; charset=utf-8".into()), ("Connection".into(), "close".into())];
        let mut explicit_len = false;
        let mut raw_edits: Vec<HttpMut> = Vec::new();
        for m in muts {
            match m {
                HttpMut::Token(i, t) => {
                    let sc = json_scalars(&body);
                    if !sc.is_empty() {
                        let (a, b) = sc[i.index(sc.len())];
                        body.splice(a .. b, t.bytes());
                    }
                }
                HttpMut::AllNumbers(t) => {
                    // from the back, so that earlier positions stay valid
                    for (a, b) in json_scalars(&body).into_iter().rev() {
                        if body[a].is_ascii_digit() || body[a] == b'-' {
                            body.splice(a .. b, t.bytes());
                        }
                    }
                }
                HttpMut::Header(k, v) => {
                    if k == "Content-Length" {
                        explicit_len = true;
                    }
                    headers.retain(|(hk, _)| hk != k);
                    headers.push((k.to_string(), v));
                }
                HttpMut::Status(sline) => status = sline,
                HttpMut::Chunked(chunks) => {
                    explicit_len = true;
                    headers.retain(|(hk, _)| hk != "Transfer-Encoding");
                    headers.push(("Transfer-Encoding".into(), "chunked".into()));
                    let mut b = Vec::new();
                    // the real body as the first chunk, then the generated ones
                    b.extend_from_slice(format!("{:x}\r\n", body.len()).as_bytes());
                    b.extend_from_slice(&body);
                    b.extend_from_slice(b"\r\n");
                    for (size, data) in chunks {
                        b.extend_from_slice(format!("{size}\r\n").as_bytes());
                        b.extend_from_slice(&data);
                        b.extend_from_slice(b"\r\n");
                    }
                    b.extend_from_slice(b"0\r\n\r\n");
                    body = b;
                }
                HttpMut::DropBody => body.clear(),
                other => raw_edits.push(other),
            }
        }
        if !explicit_len {
            headers.push(("Content-Length".into(), body.len().to_string()));
        }
        let mut raw = render_http(&status, &headers, &body);
        for m in raw_edits {
            match m {
                HttpMut::Truncate(i) => raw.truncate(i.index(raw.len() + 1)),
                HttpMut::Overwrite(i, b) => {
                    if !raw.is_empty() {
                        let at = i.index(raw.len());
                        for (k, x) in b.iter().enumerate() {
                            if at + k < raw.len() {
                                raw[at + k] = *x;
                            }
                        }
                    }
                }
                HttpMut::Insert(i, b) => {
                    let at = i.index(raw.len() + 1);
                    raw.splice(at .. at, b);
                }
                _ => {}
            }
        }
        HCase {
            entry,
            retries,
            udp_at_open: vec![],
            udp: vec![],
            tcp: vec![TcpScript { data: hex(&raw), close: true, refuse: refuse && raw.len() % 7 == 0 }],
            source: "http-mutated-valid".into(),
        }
    });
    let random = (entry, prop_oneof![Just(b"HTTP/1.1 200 OK\r\n".to_vec()), Just(b"HTTP/1.1 200 OK\r\nContent-Type: application/json\r\n\r\n".to_vec()), Just(b"HTTP/1.1 200 OK\r\nTransfer-Encoding: chunked\r\n\r\n".to_vec()), Just(Vec::new())], random_datagram(), 0u8 .. 3)
        .prop_map(|(entry, mut pre, r, retries)| {
            pre.extend_from_slice(&r);
            HCase {
                entry,
                retries,
                udp_at_open: vec![],
                udp: vec![],
                tcp: vec![TcpScript { data: hex(&pre), close: true, refuse: false }],
                source: "http-magic-random".into(),
            }
        });
    prop_oneof![5 => mutated, 1 => random].boxed()
}

/// The case generator. `extreme_bias` re-weights towards extreme values in numeric positions (C13).
pub fn hcase(extreme_bias: bool) -> BoxedStrategy<HCase> {
    let mutated = entry_strategy()
        .prop_flat_map(move |entry| {
            let fam = entry.family();
            (Just(entry), base_responder(fam), prop::collection::vec(mutation(extreme_bias), 1 .. 5), 0u8 .. 3)
        })
        .prop_map(|(entry, make, muts, retries)| {
            let mut rec = match &make.0 {
                Some(mk) => record(&entry, mk),
                None => Recording::default(),
            };
            let mut tcp_bytes: Vec<Vec<u8>> = rec.tcp.iter().map(|t| unhex(&t.data)).collect();
            let mut pre = false;
            for m in &muts {
                apply(&mut rec, &mut tcp_bytes, &mut pre, m);
            }
            for (t, b) in rec.tcp.iter_mut().zip(tcp_bytes.iter()) {
                t.data = hex(b);
            }
            let mut udp: Vec<Vec<String>> = rec.udp.iter().map(|g| g.iter().map(|d| hex(d)).collect()).collect();
            let mut udp_at_open = Vec::new();
            if pre {
                udp_at_open = udp.drain(..).flatten().collect();
            }
            HCase {
                entry,
                retries,
                udp_at_open,
                udp,
                tcp: rec.tcp,
                source: "mutated-valid".into(),
            }
        });
    let magic = entry_strategy()
        .prop_flat_map(|entry| {
            let pre = magic_prefixes(entry.family());
            let dg = (prop::sample::select(pre), random_datagram()).prop_map(|(mut p, r)| {
                p.extend_from_slice(&r);
                p
            });
            let tcp = (prop::sample::select(tcp_prefixes()), random_datagram(), any::<bool>(), prop::bool::weighted(0.1)).prop_map(|(mut p, r, close, refuse)| {
                p.extend_from_slice(&r);
                TcpScript {
                    data: hex(&p),
                    close,
                    refuse,
                }
            });
            (Just(entry), prop::collection::vec(prop::collection::vec(dg, 0 .. 4), 0 .. 7), prop::collection::vec(tcp, 0 .. 6), 0u8 .. 3)
        })
        .prop_map(|(entry, udp, tcp, retries)| {
            HCase {
                entry,
                retries,
                udp_at_open: vec![],
                udp: udp.into_iter().map(|g| g.iter().map(|d| hex(d)).collect()).collect(),
                tcp,
                source: "magic-random".into(),
            }
        });
    let random = (
        entry_strategy(),
        prop::collection::vec(random_datagram(), 0 .. 3),
        prop::collection::vec(prop::collection::vec(random_datagram(), 0 .. 4), 0 .. 5),
        prop::collection::vec((random_datagram(), any::<bool>(), prop::bool::weighted(0.1)), 0 .. 6),
        0u8 .. 3,
    )
        .prop_map(|(entry, pre, udp, tcp, retries)| {
            HCase {
                entry,
                retries,
                udp_at_open: pre.iter().map(|d| hex(d)).collect(),
                udp: udp.into_iter().map(|g| g.iter().map(|d| hex(d)).collect()).collect(),
                tcp: tcp
                    .into_iter()
                    .map(|(d, close, refuse)| {
                        TcpScript {
                            data: hex(&d),
                            close,
                            refuse,
                        }
                    })
                    .collect(),
                source: "random".into(),
            }
        });
    prop_oneof![20 => mutated, 8 => magic, 4 => random, 1 => eco_hcase()].boxed()
}


// ---------------------------------------------------------------------------------
// byte form of a case (coverage-guided fuzzing: libFuzzer mutates these bytes; `decode_case` is total)
//
// header (10 bytes): entry tag, engine class, id a (u16 LE), id d (u16 LE), toggles (players | rules << 2 | extra-present << 4), check, retries, game index low byte
// then records: tag (0 = start a new UDP group, 1 = datagram in the current group, 2 = TCP script closing after the data, 3 = TCP script left open,
//               4 = refused TCP connection, 5 = datagram queued at open), length (u16 LE), bytes

const N_TAGS: u8 = 23;

fn game_lists() -> (Vec<String>, Vec<String>) {
    let mut ids: Vec<String> = gamedig::GAMES.keys().map(|s| s.to_string()).collect();
    ids.sort();
    let mut mods: Vec<String> = modules().into_iter().map(|m| m.id.to_string()).collect();
    mods.sort();
    (ids, mods)
}

pub fn decode_case(data: &[u8]) -> HCase {
    use crate::models::valve::EngineSel;
    let h = |i: usize| data.get(i).copied().unwrap_or(0);
    let (ids, mods) = game_lists();
    let a = u16::from_le_bytes([h(2), h(3)]) as u32;
    let d = u16::from_le_bytes([h(4), h(5)]) as u32;
    let (players, rules, extra) = (h(6) & 3, (h(6) >> 2) & 3, h(6) & 16 != 0);
    let (players, rules) = (players.min(2), rules.min(2));
    let check = h(7) & 1 != 0;
    let game_index = a as usize | ((h(9) as usize) << 16);
    let entry = match h(0) % N_TAGS {
        0 => {
            let engine = match h(1) % 8 {
                0 => EngineSel::SourceNone,
                1 => EngineSel::Source(a, None),
                2 => EngineSel::Source(a, Some(d)),
                3 => EngineSel::Ship,
                4 => EngineSel::Css,
                5 => EngineSel::Ror2,
                6 => EngineSel::GoldSrc(false),
                _ => EngineSel::GoldSrc(true),
            };
            Entry::Valve { engine, players, rules, check }
        }
        1 => Entry::Gs1,
        2 => Entry::Gs1Vars,
        3 => Entry::Gs2,
        4 => Entry::Gs3,
        5 => Entry::Gs3Vars,
        6 => Entry::Quake(h(1) % 3 + 1),
        7 => Entry::Unreal2 { players, rules },
        8 => Entry::McAuto,
        9 => Entry::McJava,
        10 => Entry::McBedrock,
        11 => Entry::McLegacy,
        12 => Entry::McLegacySpecific(h(1) % 3),
        13 => Entry::Ffow,
        14 => Entry::Savage2,
        15 => Entry::Jc2m,
        16 => Entry::Mindustry,
        17 => Entry::TheShip,
        18 => Entry::Battalion,
        19 => Entry::MasterSpecific,
        20 => Entry::MasterQuery,
        21 => Entry::Generic { game: ids[game_index % ids.len()].clone(), extra: if extra { Some((players, rules, check)) } else { None } },
        _ => Entry::Module { game: mods[game_index % mods.len()].clone() },
    };
    let mut c = HCase { entry, retries: h(8) % 3, udp_at_open: vec![], udp: vec![], tcp: vec![], source: "fuzz".into() };
    let mut i = 10;
    while i + 3 <= data.len() {
        let tag = data[i] % 6;
        let len = u16::from_le_bytes([data[i + 1], data[i + 2]]) as usize;
        i += 3;
        let end = (i + len).min(data.len());
        let body = &data[i .. end];
        i = end;
        match tag {
            0 => c.udp.push(vec![]),
            1 => {
                if c.udp.is_empty() {
                    c.udp.push(vec![]);
                }
                c.udp.last_mut().unwrap().push(hex(body));
            }
            2 | 3 => c.tcp.push(TcpScript { data: hex(body), close: tag == 2, refuse: false }),
            4 => c.tcp.push(TcpScript { data: String::new(), close: true, refuse: true }),
            _ => c.udp_at_open.push(hex(body)),
        }
        if c.udp.len() > 40 || c.tcp.len() > 12 {
            break;
        }
    }
    c
}

pub fn encode_case(c: &HCase) -> Vec<u8> {
    use crate::models::valve::EngineSel;
    let (ids, mods) = game_lists();
    let mut h = [0u8; 10];
    let mut set_ids = |h: &mut [u8; 10], a: u32, d: u32| {
        h[2 .. 4].copy_from_slice(&(a as u16).to_le_bytes());
        h[4 .. 6].copy_from_slice(&(d as u16).to_le_bytes());
        h[9] = (a >> 16) as u8;
    };
    match &c.entry {
        Entry::Valve { engine, players, rules, check } => {
            h[0] = 0;
            h[6] = players | rules << 2;
            h[7] = *check as u8;
            match engine {
                EngineSel::SourceNone => h[1] = 0,
                EngineSel::Source(a, None) => {
                    h[1] = 1;
                    set_ids(&mut h, *a, 0);
                    h[9] = 0;
                }
                EngineSel::Source(a, Some(d)) => {
                    h[1] = 2;
                    set_ids(&mut h, *a, *d);
                    h[9] = 0;
                }
                EngineSel::Ship => h[1] = 3,
                EngineSel::Css => h[1] = 4,
                EngineSel::Ror2 => h[1] = 5,
                EngineSel::GoldSrc(false) => h[1] = 6,
                EngineSel::GoldSrc(true) => h[1] = 7,
            }
        }
        Entry::Gs1 => h[0] = 1,
        Entry::Gs1Vars => h[0] = 2,
        Entry::Gs2 => h[0] = 3,
        Entry::Gs3 => h[0] = 4,
        Entry::Gs3Vars => h[0] = 5,
        Entry::Quake(v) => {
            h[0] = 6;
            h[1] = v.saturating_sub(1);
        }
        Entry::Unreal2 { players, rules } => {
            h[0] = 7;
            h[6] = players | rules << 2;
        }
        Entry::McAuto => h[0] = 8,
        Entry::McJava => h[0] = 9,
        Entry::McBedrock => h[0] = 10,
        Entry::McLegacy => h[0] = 11,
        Entry::McLegacySpecific(g) => {
            h[0] = 12;
            h[1] = *g;
        }
        Entry::Ffow => h[0] = 13,
        Entry::Savage2 => h[0] = 14,
        Entry::Jc2m => h[0] = 15,
        Entry::Mindustry => h[0] = 16,
        Entry::TheShip => h[0] = 17,
        Entry::Battalion => h[0] = 18,
        Entry::MasterSpecific => h[0] = 19,
        Entry::MasterQuery => h[0] = 20,
        Entry::Generic { game, extra } => {
            h[0] = 21;
            set_ids(&mut h, ids.iter().position(|g| g == game).unwrap_or(0) as u32, 0);
            if let Some((p, r, ch)) = extra {
                h[6] = p | r << 2 | 16;
                h[7] = *ch as u8;
            }
        }
        Entry::Module { game } => {
            h[0] = 22;
            set_ids(&mut h, mods.iter().position(|g| g == game).unwrap_or(0) as u32, 0);
        }
    }
    h[8] = c.retries;
    let mut out = h.to_vec();
    let mut rec = |tag: u8, body: &[u8]| {
        let body = &body[.. body.len().min(65_535)];
        out.push(tag);
        out.extend_from_slice(&(body.len() as u16).to_le_bytes());
        out.extend_from_slice(body);
    };
    for d in &c.udp_at_open {
        rec(5, &unhex(d));
    }
    for g in &c.udp {
        rec(0, &[]);
        for d in g {
            rec(1, &unhex(d));
        }
    }
    for t in &c.tcp {
        if t.refuse {
            rec(4, &[]);
        } else {
            rec(if t.close { 2 } else { 3 }, &unhex(&t.data));
        }
    }
    out
}

/// One fuzz iteration: None if the case is handled cleanly, otherwise (property, signature, detail).
pub fn fuzz_one(data: &[u8]) -> Option<(&'static str, String, serde_json::Value, HCase)> {
    let case = decode_case(data);
    if case.entry.family() == Family::Http {
        return None; // real sockets: not inside the in-process fuzz loop
    }
    let run = run_hostile(&case);
    let site = crate::alloc::take_site();
    if let Some(f) = judge_c01(&case, &run).failure {
        return Some(("C01", f.signature, f.detail, case));
    }
    if let Some(f) = judge_c13(&case, &run, site).failure {
        return Some(("C13", f.signature, f.detail, case));
    }
    None
}

pub fn run_hostile(case: &HCase) -> Run<()> {
    if case.entry.family() == Family::Http {
        // ureq bypasses the socket seam: the script is served by this thread's real loopback HTTP server
        let Some(server) = crate::models::eco::thread_server() else {
            return Run { ended: Ended::Err(gamedig::GDErrorKind::SocketBind), log: Vec::new(), runaway: false, alloc: Default::default() };
        };
        let script = case.tcp.first().cloned().unwrap_or(TcpScript { data: String::new(), close: true, refuse: false });
        server.set_raw(unhex(&script.data), script.refuse);
        let lo: std::net::IpAddr = std::net::Ipv4Addr::LOCALHOST.into();
        let (port, retries) = (server.port, case.retries as usize);
        let mut run = crate::wire::run_plain(|| case.entry.call(&lo, port, retries));
        // one pseudo event per request the server saw, so that "reached the parser" keeps its meaning
        for (line, _) in server.requests() {
            run.log.push(crate::wire::Ev::Recv { conn: 0, size: None, out: crate::wire::RecvOut::Data(line.into_bytes()) });
        }
        return run;
    }
    let ip = doc_ip();
    let server = HostileServer::new(case);
    let retries = case.retries as usize;
    run_scripted(Box::new(server), || case.entry.call(&ip, 27015, retries))
}

/// Did the reply reach parsing logic? (some data was received and the client went on or rejected it)
pub fn reached_parser(run: &Run<()>) -> bool { run.n_recv_data() > 0 }

pub fn script_bytes(c: &HCase) -> usize {
    c.udp.iter().flatten().map(|d| d.len() / 2).sum::<usize>() + c.udp_at_open.iter().map(|d| d.len() / 2).sum::<usize>() + c.tcp.iter().map(|t| t.data.len() / 2).sum::<usize>()
}


/// Bounded-exhaustive scripts over the fragment index fields of the multi-datagram families: every sequence of up to
/// 3-4 datagrams whose index / count / last-flag fields are drawn from a small alphabet (in range, one past, far past,
/// flagged, repeated), around otherwise valid payloads. Random byte mutations reach these shapes too rarely.
pub fn index_field_cases(shard: usize, nshards: usize) -> Vec<HCase> {
    let mut out = Vec::new();
    let mut n = 0usize;
    let mut push = |c: HCase, out: &mut Vec<HCase>| {
        if n % nshards.max(1) == shard {
            out.push(c);
        }
        n += 1;
    };
    fn sequences(alphabet: usize, max_len: usize) -> Vec<Vec<usize>> {
        let mut all: Vec<Vec<usize>> = Vec::new();
        let mut level: Vec<Vec<usize>> = vec![vec![]];
        for _ in 0 .. max_len {
            let mut next = Vec::new();
            for s in &level {
                for a in 0 .. alphabet {
                    let mut t = s.clone();
                    t.push(a);
                    next.push(t);
                }
            }
            all.extend(next.iter().cloned());
            level = next;
        }
        all
    }
    // GameSpy 3: the id byte (packet number, bit 7 = last)
    {
        let mut runner = proptest::test_runner::TestRunner::deterministic();
        let st = loop {
            let st = proptest::strategy::ValueTree::current(&gs3_state().new_tree(&mut runner).unwrap());
            if st.payloads().len() >= 2 {
                break st;
            }
        };
        let payloads = st.payloads();
        let ids: [u8; 12] = [0, 1, 2, 3, 4, 0x7F, 0x80, 0x81, 0x82, 0x83, 0x84, 0xFF];
        for seq in sequences(ids.len(), 4) {
            let frags: Vec<String> = seq
                .iter()
                .map(|a| {
                    let id = ids[*a];
                    let mut d = vec![0x00, 0x00, 0x00, 0x00, 0x01];
                    d.extend_from_slice(b"splitnum\0");
                    d.push(id);
                    d.push(if id & 0x7F == 0 { 0 } else { 1 });
                    d.extend_from_slice(&payloads[(id & 0x7F) as usize % payloads.len()]);
                    hex(&d)
                })
                .collect();
            let entry = if seq.len() < 4 && seq.len() % 2 == 0 { Entry::Gs3Vars } else { Entry::Gs3 };
            push(
                HCase { entry, retries: 0, udp_at_open: vec![], udp: vec![vec![hex(&crate::models::gamespy::gs3_handshake_reply(0))], frags], tcp: vec![], source: "index-fields:gs3".into() },
                &mut out,
            );
        }
    }
    // Valve split replies: (total, number) of the Source form, the packed nibbles of the GoldSrc form
    {
        let info = b"\xFF\xFF\xFF\xFF\x49\x11name\0map\0folder\0game\0\x0a\x00\x01\x10\x00dl\x00\x00v1\0".to_vec();
        let parts: Vec<&[u8]> = info.chunks(info.len().div_ceil(3)).collect();
        let vals: [u8; 5] = [0, 1, 2, 3, 0xFF];
        for seq in sequences(25, 3) {
            let frags: Vec<String> = seq
                .iter()
                .map(|a| {
                    let (total, number) = (vals[a / 5], vals[a % 5]);
                    let mut d = vec![0xFE, 0xFF, 0xFF, 0xFF, 7, 0, 0, 0, total, number];
                    d.extend_from_slice(&1248u16.to_le_bytes());
                    d.extend_from_slice(parts[number as usize % parts.len()]);
                    hex(&d)
                })
                .collect();
            push(
                HCase {
                    entry: Entry::Valve { engine: crate::models::valve::EngineSel::SourceNone, players: 0, rules: 0, check: false },
                    retries: 0,
                    udp_at_open: vec![],
                    udp: vec![frags],
                    tcp: vec![],
                    source: "index-fields:valve-source".into(),
                },
                &mut out,
            );
        }
        let packed: [u8; 14] = [0x00, 0x01, 0x02, 0x03, 0x10, 0x11, 0x12, 0x13, 0x22, 0x23, 0x33, 0x0F, 0xF0, 0xFF];
        for seq in sequences(packed.len(), 3) {
            let frags: Vec<String> = seq
                .iter()
                .map(|a| {
                    let b = packed[*a];
                    let mut d = vec![0xFE, 0xFF, 0xFF, 0xFF, 7, 0, 0, 0, b];
                    d.extend_from_slice(parts[(b >> 4) as usize % parts.len()]);
                    hex(&d)
                })
                .collect();
            push(
                HCase {
                    entry: Entry::Valve { engine: crate::models::valve::EngineSel::GoldSrc(false), players: 0, rules: 0, check: false },
                    retries: 0,
                    udp_at_open: vec![],
                    udp: vec![frags],
                    tcp: vec![],
                    source: "index-fields:valve-goldsrc".into(),
                },
                &mut out,
            );
        }
    }
    // GameSpy 1: the part number of `queryid` and the `final` marker
    {
        let texts = ["\\hostname\\h\\hostport\\7777\\mapname\\m\\gametype\\g\\numplayers\\1\\maxplayers\\4\\gamever\\1", "\\player_0\\a\\frags_0\\1\\ping_0\\5", "\\team_0\\0\\mesh_0\\x"];
        // (part text, final)
        let tails: [(&str, bool); 12] =
            [(".0", false), (".1", false), (".2", false), (".3", false), (".4", false), ("", false), (".0", true), (".1", true), (".2", true), (".3", true), (".99999", true), ("", true)];
        for seq in sequences(tails.len(), 4) {
            let frags: Vec<String> = seq
                .iter()
                .enumerate()
                .map(|(k, a)| {
                    let (part, fin) = tails[*a];
                    let mut t = texts[k % texts.len()].to_string();
                    if fin {
                        t.push_str("\\final\\");
                    }
                    t.push_str(&format!("\\queryid\\7{part}"));
                    hex(t.as_bytes())
                })
                .collect();
            let entry = if seq.len() % 2 == 0 { Entry::Gs1Vars } else { Entry::Gs1 };
            push(HCase { entry, retries: 0, udp_at_open: vec![], udp: vec![frags], tcp: vec![], source: "index-fields:gs1".into() }, &mut out);
        }
    }
    out
}


/// Compressed Source split replies around the declared decompressed size: one fragment carrying a bzip2 stream of a valid
/// info reply, declared size below / at / above what the stream holds (and at the 4 MiB bound), checksum right or wrong.
pub fn declared_size_cases() -> Vec<HCase> {
    let info = b"\xFF\xFF\xFF\xFF\x49\x11name\0map\0folder\0game\0\x0a\x00\x01\x10\x00dl\x00\x00v1\0".to_vec();
    let Some(stream) = crate::bz2::compress(&info, 9) else { return Vec::new() };
    let n = info.len() as u32;
    let crc = crc32fast::hash(&info);
    let mut out = Vec::new();
    for declared in [0u32, 1, n - 1, n, n + 1, 2 * n, 4 << 20, (4 << 20) + 1, u32::MAX] {
        for sum in [crc, 0, !crc] {
            let mut d = vec![0xFE, 0xFF, 0xFF, 0xFF];
            d.extend_from_slice(&0x8000_0007u32.to_le_bytes());
            d.push(1);
            d.push(0);
            d.extend_from_slice(&1248u16.to_le_bytes());
            d.extend_from_slice(&declared.to_le_bytes());
            d.extend_from_slice(&sum.to_le_bytes());
            d.extend_from_slice(&stream);
            out.push(HCase {
                entry: Entry::Valve { engine: crate::models::valve::EngineSel::SourceNone, players: 0, rules: 0, check: false },
                retries: 0,
                udp_at_open: vec![],
                udp: vec![vec![hex(&d)]],
                tcp: vec![],
                source: "declared-size:valve-compressed".into(),
            });
        }
    }
    out
}

pub struct C01;

impl Prop for C01 {
    type Case = HCase;

    fn id(&self) -> &'static str { "C01" }

    fn isolate(&self) -> bool { true }

    fn hang_secs(&self) -> u64 { 20 }

    fn rule(&self) -> String {
        "reply scripts x entry points x settings. Entry points: the protocol functions (valve with 8 engine classes and 9 gather-toggle pairs, GameSpy 1/2/3 query and \
         query_vars, Quake 1/2/3, Unreal 2 with toggles, Minecraft auto/java/bedrock/legacy/legacy-specific, FFOW, Savage 2, JC2-MP, Mindustry, The Ship, Battalion 1944, \
         master-server query_specific and query), the definition-driven dispatch for every table game, and every dedicated game module (Eco through a real loopback HTTP \
         server: a valid response with 1-3 mutations of status line, Content-Length / Transfer-Encoding / Content-Encoding / Location headers, chunked framing, JSON scalars replaced \
         by extreme tokens, truncation / overwrite / insertion of raw bytes; or HTTP magic plus random bytes). Scripts: (1) a valid \
         exchange recorded against the reference servers and then mutated 1-4 times (truncate at any byte, overwrite bytes / u16 / u32 with extreme values in either byte \
         order, delete / insert bytes, drop a NUL terminator, duplicate / drop / swap / splice datagrams, empty and 64 KiB datagrams, challenge storms, pre-queued replies, \
         unclosed / refused TCP), (2) protocol magic followed by random bytes, (3) pure random datagrams and streams; retries 0-2; (4) enumerated: every sequence of up to 3-4 datagrams whose \
         fragment index fields (GameSpy 3 id byte, Valve Source total/number, GoldSrc packed nibbles, GameSpy 1 queryid part and final marker) come from a small \
         alphabet of in-range, one-past, far-past, flagged and repeated values, and a compressed Source split reply declaring less / exactly / more than \
         its bzip2 stream holds (checksum right or wrong). Oracle: the call returns Ok or Err; a \
         panic (including arithmetic overflow: the build has overflow checks on), more than 100000 transport operations in one query, or a case that does not return \
         (watchdog, confirmed in a fresh process) is a violation. non-trivial = the client received at least one non-empty reply; distinct = digest of (entry, script)"
            .into()
    }

    fn assumptions(&self) -> Vec<String> {
        vec![
            "the scripted transport reproduces loopback socket semantics (datagram truncation to the requested size, read_to_end for TCP, silence = immediate timeout)".into(),
            "eco (HTTP through ureq) bypasses the socket seam: its scripts are raw HTTP responses served by a real loopback HTTP server that closes after answering".into(),
        ]
    }

    fn random_cases(&self, tier: Tier) -> u64 { tier.pick(300_000, 12_000_000) }

    fn strategy(&self, _tier: Tier) -> BoxedStrategy<HCase> { hcase(false) }

    fn enumerated<'a>(&'a self, _tier: Tier, shard: usize, nshards: usize) -> Box<dyn Iterator<Item = HCase> + 'a> {
        let mut v = index_field_cases(shard, nshards);
        if shard == 0 {
            v.extend(declared_size_cases());
        }
        Box::new(v.into_iter())
    }

    fn run(&self, case: &HCase) -> Outcome {
        let run = run_hostile(case);
        judge_c01(case, &run)
    }
}

pub fn judge_c01(case: &HCase, run: &Run<()>) -> Outcome {
    {
        let mut o = Outcome::new();
        o.label(format!("entry={}", case.entry.label()));
        o.label(format!("source={}", case.source));
        o.nontrivial = reached_parser(run) && script_bytes(case) > 0;
        o.label(format!("outcome={}", match &run.ended { Ended::Ok(_) => "Ok".to_string(), Ended::Err(k) => format!("Err({k:?})"), Ended::Panic(_) => "Panic".to_string() }));
        if run.runaway {
            o.fail(
                format!("C01|runaway|{}", case.entry.sig_name()),
                json!({"entry": case.entry, "operations": run.log.len(), "wire_head": render_log(&run.log[.. run.log.len().min(30)])}),
            );
        } else if let Ended::Panic(p) = &run.ended {
            o.fail(
                format!("C01|panic|{}|{}", p.site(), p.class()),
                json!({"entry": case.entry, "panic": p, "wire": render_log(&run.log[.. run.log.len().min(40)])}),
            );
        } else if run.runaway {
            o.fail(
                format!("C01|runaway|{}", case.entry.sig_name()),
                json!({"entry": case.entry, "operations": run.log.len(), "wire_head": render_log(&run.log[.. run.log.len().min(30)])}),
            );
        }
        o
    }
}

pub struct C13;

pub const CAP_LIVE: usize = 64 << 20;
pub const CAP_REQUEST: usize = 16 << 20;

impl Prop for C13 {
    type Case = HCase;

    fn id(&self) -> &'static str { "C13" }

    fn isolate(&self) -> bool { true }

    fn hang_secs(&self) -> u64 { 20 }

    fn rule(&self) -> String {
        "the reply scripts and entry points of C01, re-weighted so that 16- and 32-bit positions of otherwise valid replies are overwritten with extreme values (0, 1, \
         0x7FFF.., 0x8000.., 0xFFFF.., in either byte order) three times as often. A counting global allocator (per-thread counters armed around the query) is the oracle: \
         peak live bytes <= 64 MiB and largest single request <= 16 MiB (requests >= 256 MiB are served from an unreserved mapping so that they are recorded instead of \
         aborting the process), and sends <= (retries+1)*8 + 2*datagrams received + 8. The call site of an oversized request is taken from a backtrace captured inside \
         the allocator. non-trivial = the client received at least one non-empty reply and allocated at all; distinct = digest of (entry, script)"
            .into()
    }

    fn assumptions(&self) -> Vec<String> {
        vec![
            "allocations of the harness's own transport (copies of the scripted datagrams, the event log) are counted too; scripts are at most a few MiB".into(),
            "memory requested by other threads or mapped by the OS is invisible; stack use is not measured".into(),
        ]
    }

    fn random_cases(&self, tier: Tier) -> u64 { tier.pick(200_000, 8_000_000) }

    fn strategy(&self, _tier: Tier) -> BoxedStrategy<HCase> { hcase(true) }

    fn enumerated<'a>(&'a self, _tier: Tier, shard: usize, _nshards: usize) -> Box<dyn Iterator<Item = HCase> + 'a> {
        let indexed = index_field_cases(shard, _nshards);
        if shard != 0 {
            return Box::new(indexed.into_iter());
        }
        // decompression: declared sizes and real bzip2 bombs in a compressed split reply to the players request
        let info = b"\xFF\xFF\xFF\xFF\x49\x11name\0map\0folder\0game\0\x0a\x00\x01\x10\x00dl\x00\x00v1\0".to_vec();
        let mut out = Vec::new();
        let small = crate::bz2::compress(b"\xFF\xFF\xFF\xFF\x44\x00", 9);
        let bomb = crate::bz2::compress(&vec![0u8; 120 << 20], 9);
        let mut variants: Vec<(&str, u32, Option<Vec<u8>>)> = vec![("declared-4GiB-tiny-stream", 0xFFFF_FFFF, small.clone()), ("declared-1GiB-tiny-stream", 1 << 30, small)];
        variants.push(("declared-4GiB-bomb", 0xFFFF_FFFF, bomb.clone()));
        variants.push(("declared-120MiB-bomb", 120 << 20, bomb.clone()));
        // a small (acceptable) declared size in front of a stream that expands far beyond it
        for (name, declared) in [("declared-0-bomb", 0u32), ("declared-6B-bomb", 6), ("declared-1KiB-bomb", 1024), ("declared-1MiB-bomb", 1 << 20), ("declared-4MiB-bomb", 4 << 20), ("declared-4MiB+1-bomb", (4 << 20) + 1)] {
            variants.push((name, declared, bomb.clone()));
        }
        let bomb40 = crate::bz2::compress(&vec![0x41u8; 40 << 20], 9);
        variants.push(("declared-1KiB-bomb-40MiB", 1024, bomb40.clone()));
        variants.push(("declared-4MiB-bomb-40MiB", 4 << 20, bomb40));
        for (name, declared, body) in variants {
            let Some(body) = body else { continue };
            // one compressed fragment: header, id with the compression bit, total 1, number 0, size, declared size, crc
            let mut frags = Vec::new();
            let chunk = 6000usize;
            let total = body.len().div_ceil(chunk).max(1);
            for (n, part) in body.chunks(chunk).enumerate() {
                let mut d = vec![0xFE, 0xFF, 0xFF, 0xFF];
                d.extend_from_slice(&0x8000_0001u32.to_le_bytes());
                d.push(total as u8);
                d.push(n as u8);
                d.extend_from_slice(&1248u16.to_le_bytes());
                if n == 0 {
                    d.extend_from_slice(&declared.to_le_bytes());
                    d.extend_from_slice(&0u32.to_le_bytes());
                }
                d.extend_from_slice(part);
                frags.push(hex(&d));
            }
            out.push(HCase {
                entry: Entry::Valve { engine: crate::models::valve::EngineSel::SourceNone, players: 2, rules: 0, check: false },
                retries: 0,
                udp_at_open: vec![],
                udp: vec![vec![hex(&info)], frags],
                tcp: vec![],
                source: format!("decompression:{name}"),
            });
        }
        // table amplification: a GameSpy 2 reply whose row count says 255 and whose column heads fill the datagram, without any row data
        for size in [1024usize, 1400, 6144, 65_507] {
            for (name, token, same) in [("same-names", &b"a\0"[..], true), ("distinct-names", &b""[..], false)] {
                for table in 0 .. 2 {
                    let mut d: Vec<u8> = vec![0, 0, 0, 0, 1];
                    if table == 1 {
                        // well-formed variables and an empty players table in front of the teams table
                        d.extend_from_slice(b"hostname\0x\0mapname\0y\0password\x000\0maxplayers\x001\0\0\0");
                        d.extend_from_slice(&[0, 0]);
                    } else {
                        d.extend_from_slice(&[0, 0]);
                    }
                    d.extend_from_slice(&[0, 0xFF]);
                    let mut k = 0u32;
                    while d.len() + 8 < size {
                        if same {
                            d.extend_from_slice(token);
                        } else {
                            d.extend_from_slice(format!("{k:x}").as_bytes());
                            d.push(0);
                            k += 1;
                        }
                    }
                    out.push(HCase {
                        entry: if table == 0 { Entry::Gs2 } else { Entry::Generic { game: "hce".into(), extra: None } },
                        retries: 0,
                        udp_at_open: vec![],
                        udp: vec![vec![hex(&d)]],
                        tcp: vec![],
                        source: format!("amplification:gs2-table{table}-{name}-{size}"),
                    });
                }
            }
        }
        out.extend(indexed);
        out.extend(declared_size_cases());
        Box::new(out.into_iter())
    }

    fn run(&self, case: &HCase) -> Outcome {
        let run = run_hostile(case);
        let site = crate::alloc::take_site();
        judge_c13(case, &run, site)
    }
}

pub fn judge_c13(case: &HCase, run: &Run<()>, site: Option<String>) -> Outcome {
    {
        let mut o = Outcome::new();
        o.label(format!("entry={}", case.entry.label()));
        if case.source.starts_with("decompression") || case.source.starts_with("amplification") {
            o.label(case.source.clone());
        }
        let a = run.alloc;
        o.nontrivial = reached_parser(run) && a.requests > 0;
        o.label(match a.max_request {
            0 ..= 65_535 => "max-request<64KiB",
            65_536 ..= 1_048_575 => "max-request<1MiB",
            1_048_576 ..= 16_777_215 => "max-request<16MiB",
            _ => "max-request>=16MiB",
        });
        let sends = run.n_sends();
        let bound = (case.retries as usize + 1) * 8 + 2 * run.n_recv_data() + 8;
        if a.max_request > CAP_REQUEST {
            o.fail(
                format!("C13|single request > 16 MiB|{}", site.clone().unwrap_or_else(|| "<unknown site>".into())),
                json!({"entry": case.entry, "alloc": a, "site": site, "script_bytes": script_bytes(case), "wire": render_log(&run.log[.. run.log.len().min(30)])}),
            );
        } else if a.peak_live > CAP_LIVE {
            o.fail(
                format!("C13|peak live > 64 MiB|{}", case.entry.sig_name()),
                json!({"entry": case.entry, "alloc": a, "script_bytes": script_bytes(case), "wire": render_log(&run.log[.. run.log.len().min(30)])}),
            );
        } else if sends > bound || run.runaway {
            o.fail(
                format!("C13|sends not bounded by retries and replies|{}", case.entry.sig_name()),
                json!({"entry": case.entry, "sends": sends, "bound": bound, "received": run.n_recv_data(), "wire": render_log(&run.log[.. run.log.len().min(30)])}),
            );
        }
        o
    }
}
