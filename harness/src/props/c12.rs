//! C12 — timeouts bound every blocking step on real sockets; bytes are delivered unmodified.

use gamedig::protocols::types::TimeoutSettings;
use gamedig::verif_hook::{Proto, RealTcpSocket, RealUdpSocket, SocketTrait};
use gamedig::GDErrorKind;
use proptest::prelude::*;
use serde::{Deserialize, Serialize};
use serde_json::json;
use std::net::{IpAddr, Ipv4Addr, Ipv6Addr, SocketAddr};
use std::time::{Duration, Instant};

use crate::entries::Entry;
use crate::models::fault::{Fault, Faulty};
use crate::models::valve::EngineSel;
use crate::props::c10::state_for_entry;
use crate::realnet::{refusing_tcp_port, RealServer};
use crate::runner::{Outcome, Prop, Tier};
use crate::wire::{Outbox, Responder};

#[derive(Debug, Clone, Copy, PartialEq, Eq, Hash, Serialize, Deserialize)]
pub enum FaultPoint {
    /// everything answers
    None,
    /// the given request unit never answers, from its given step on
    Silent { unit: u8, step: u8 },
    /// a reply of several datagrams stops after its first datagram (the server "stops mid-exchange")
    Partial { unit: u8, step: u8 },
    /// TCP: the reply is written but the connection is never closed
    NoClose,
    /// nothing listens on the port
    Refused,
}

#[derive(Debug, Clone, Serialize, Deserialize)]
pub enum Case {
    Timeout {
        target: u8,
        v6: bool,
        timeout_ms: u16,
        retries: u8,
        fault: FaultPoint,
        idx: u64,
        /// 0: all three timeouts equal; 1: only the timeout that bounds the fault is short, the others are 20 s; 2: the others are None
        #[serde(default)]
        shape: u8,
    },
    /// A blocking step other than waiting for a reply. kind 0: connect to a listener whose accept queue is full (target 0 Java, 1 legacy 1.6, 2 Eco/HTTP);
    /// 1: write to a peer that never reads (raw TCP socket); 2: HTTP server that accepts and stays silent; 3: HTTP server that sends the status line, headers and
    /// the start of the body, then stalls; 4: HTTP connection refused.
    Stall { kind: u8, target: u8, v6: bool, timeout_ms: u16, retries: u8, shape: u8 },
    /// Eco / HTTP against an answering server at the IPv4 or IPv6 loopback address
    HttpOk { v6: bool, idx: u64 },
    /// Any entry point that takes timeout settings against a peer that takes datagrams and connections on one port and never answers
    SilentAll { entry: Entry, v6: bool, timeout_ms: u16, retries: u8, shape: u8 },
    UdpRaw { v6: bool, send_len: usize, reply_len: usize, req_size: Option<usize>, salt: u8 },
    TcpRaw { v6: bool, send_len: usize, reply_len: usize, salt: u8 },
}

fn targets() -> Vec<(Entry, Vec<FaultPoint>)> {
    use FaultPoint::*;
    let s = |unit, step| Silent { unit, step };
    let p = |unit, step| Partial { unit, step };
    vec![
        (Entry::Valve { engine: EngineSel::SourceNone, players: 2, rules: 2, check: false }, vec![None, s(0, 0), s(0, 1), s(1, 0), s(1, 1), s(2, 0), s(2, 1), p(0, 1), p(1, 1), p(2, 1)]),
        (Entry::Gs3, vec![None, s(0, 0), s(0, 1), p(0, 1)]),
        (Entry::Gs1, vec![None, s(0, 0), p(0, 0)]),
        (Entry::Unreal2 { players: 2, rules: 2 }, vec![None, s(0, 0), s(1, 0), s(2, 0)]),
        (Entry::Quake(3), vec![None, s(0, 0)]),
        (Entry::McJava, vec![None, s(0, 0), NoClose, Refused]),
        (Entry::McLegacySpecific(0), vec![None, s(0, 0), NoClose, Refused]),
        (Entry::McBedrock, vec![None, s(0, 0)]),
    ]
}

/// Wraps a responder and never lets a TCP stream be closed by the server.
struct NeverClose(Box<dyn Responder>);
impl Responder for NeverClose {
    fn on_open(&mut self, proto: Proto, peer: &SocketAddr, out: &mut Outbox) { self.0.on_open(proto, peer, out) }
    fn on_send(&mut self, proto: Proto, peer: &SocketAddr, nth: usize, data: &[u8], out: &mut Outbox) {
        self.0.on_send(proto, peer, nth, data, out);
        out.conn.closed = false;
    }
}

fn pattern(len: usize, salt: u8) -> Vec<u8> { (0 .. len).map(|i| (i as u32).wrapping_mul(2_654_435_761).rotate_left(salt as u32 % 31 + 1) as u8 ^ salt).collect() }

fn ip_of(v6: bool) -> IpAddr {
    if v6 {
        IpAddr::V6(Ipv6Addr::LOCALHOST)
    } else {
        IpAddr::V4(Ipv4Addr::LOCALHOST)
    }
}

/// Run `f` on a helper thread; None if it is still blocked after `limit`.
fn bounded<T: Send + 'static>(limit: Duration, f: impl FnOnce() -> T + Send + 'static) -> Option<(T, Duration)> {
    let (tx, rx) = std::sync::mpsc::channel();
    let t0 = Instant::now();
    std::thread::Builder::new()
        .name("gdv-query".into())
        .spawn(move || {
            let r = crate::panics::catch(f);
            let _ = tx.send(r);
        })
        .ok()?;
    match rx.recv_timeout(limit) {
        Ok(Ok(v)) => Some((v, t0.elapsed())),
        Ok(Err(_)) => None,
        Err(_) => None,
    }
}

/// Timeout settings where `which` (0 read, 1 write, 2 connect) is the short one.
fn shaped(which: u8, d: Duration, retries: usize, shape: u8) -> Option<TimeoutSettings> {
    let other = match shape {
        0 => Some(d),
        1 => Some(Duration::from_secs(20)),
        _ => None,
    };
    let pick = |i: u8| if i == which { Some(d) } else { other };
    TimeoutSettings::new(pick(0), pick(1), pick(2), retries).ok()
}

/// A listening socket whose accept queue is full: further connection attempts get no answer.
struct StalledListener {
    addr: SocketAddr,
    _listener: std::net::TcpListener,
    _fill: Vec<std::net::TcpStream>,
}

fn stalled_listener(ip: IpAddr) -> Option<StalledListener> {
    use std::os::fd::AsRawFd;
    let l = std::net::TcpListener::bind(SocketAddr::new(ip, 0)).ok()?;
    // shrink the accept queue to its minimum and never accept
    if unsafe { libc::listen(l.as_raw_fd(), 0) } != 0 {
        return None;
    }
    let addr = l.local_addr().ok()?;
    let mut fill = Vec::new();
    for _ in 0 .. 8 {
        match std::net::TcpStream::connect_timeout(&addr, Duration::from_millis(150)) {
            Ok(s) => fill.push(s),
            Err(e) if e.kind() == std::io::ErrorKind::TimedOut || e.kind() == std::io::ErrorKind::WouldBlock => {
                return Some(StalledListener { addr, _listener: l, _fill: fill });
            }
            Err(_) => return None,
        }
    }
    None
}

/// Every entry point that accepts timeout settings (protocol functions; the table games are added by the caller).
fn timeout_entries() -> Vec<Entry> {
    let mut v = vec![
        Entry::Valve { engine: EngineSel::SourceNone, players: 2, rules: 2, check: false },
        Entry::Valve { engine: EngineSel::GoldSrc(false), players: 1, rules: 1, check: true },
        Entry::Gs1,
        Entry::Gs1Vars,
        Entry::Gs2,
        Entry::Gs3,
        Entry::Gs3Vars,
        Entry::Quake(1),
        Entry::Quake(2),
        Entry::Quake(3),
        Entry::Unreal2 { players: 2, rules: 2 },
        Entry::McAuto,
        Entry::McJava,
        Entry::McBedrock,
        Entry::McLegacy,
        Entry::Ffow,
        Entry::Savage2,
        Entry::Jc2m,
        Entry::Mindustry,
        Entry::TheShip,
    ];
    for g in 0 .. 3 {
        v.push(Entry::McLegacySpecific(g));
    }
    v
}

/// A UDP socket and a TCP listener on the same port; nothing is ever read or answered.
struct SilentPeer {
    port: u16,
    _udp: std::net::UdpSocket,
    _tcp: std::net::TcpListener,
}

fn silent_peer(ip: IpAddr) -> Option<SilentPeer> {
    for _ in 0 .. 20 {
        let tcp = std::net::TcpListener::bind(SocketAddr::new(ip, 0)).ok()?;
        let port = tcp.local_addr().ok()?.port();
        if let Ok(udp) = std::net::UdpSocket::bind(SocketAddr::new(ip, port)) {
            return Some(SilentPeer { port, _udp: udp, _tcp: tcp });
        }
    }
    None
}

pub struct C12;

const SLACK: Duration = Duration::from_millis(2500);

impl Prop for C12 {
    fn level(&self) -> &'static str { "fault_enumeration" }

    type Case = Case;

    fn id(&self) -> &'static str { "C12" }

    fn rule(&self) -> String {
        "REAL loopback sockets (no scripted transport). (a) every point at which a server may fall silent, enumerated: valve (before info; after the info challenge; before / in the \
         middle of the players and rules exchanges; a split reply that stops after its first fragment), GameSpy 1 and 3 (handshake, data; a multi-part reply that stops after its first part), Unreal 2 (info, rules, players), Quake 3, Bedrock over UDP; Minecraft Java and legacy 1.6 over TCP \
         (accept then silent; reply written but never closed; connection refused) x IPv4 / IPv6 x timeouts 40 / 120 ms x retries 0..=2 x timeout shape (all three equal; only the \
         bounding one short and the others 20 s; the others None), served by real server threads that wrap the \
         reference servers in the fault injector. The query runs on a helper thread and must deliver Err of the matching class (PacketReceive; SocketConnect when refused; Ok when \
         nothing is withheld) within attempts x steps x timeout + 2.5 s slack; still blocked at the deadline = violation. (a') the other blocking steps: connecting to a listener whose accept queue is full (Java, legacy, Eco/HTTP: bounded by the \
         connect timeout, SocketConnect), writing 64 MiB to a peer that never reads (raw TCP socket: bounded by the write timeout, PacketSend), Eco/HTTP (ureq) against a server that \
         accepts and stays silent / sends headers and the start of the body then stalls / refuses (any error value within the bound), each x IPv4/IPv6 x 2 timeouts x 3 shapes. (a+) every entry point that accepts timeout settings (all protocol functions, the five Minecraft variants and their chains, the per-game functions with timeouts, and the generic dispatch for every table game) against a peer that takes datagrams and connections on one port and never answers: PacketReceive / AutoQuery within the same bound, with the same timeout shapes, and the peer must have received at least one and at most attempts x (blocking steps) datagrams / connections. (a'') Eco/HTTP against an answering server at 127.0.0.1 and ::1: the query succeeds and the peer sees exactly one GET /frontpage carrying its own address as Host. (b) raw socket fidelity through the re-exported socket \
         implementations: payloads of 0, 1, 1023, 1024, 1025, 1472, 6144, 65507 and random sizes each way with requested receive sizes around the payload size: the server must see \
         exactly the bytes sent and the client must get exactly the first min(size, len) bytes (TCP: everything until the close). non-trivial = a fault after at least one successful \
         reply, IPv6, or a payload above 1024 bytes; distinct = digest of the case"
            .into()
    }

    fn assumptions(&self) -> Vec<String> {
        vec![
            "wall-clock bound with generous slack: a timeout that fires late by less than the slack is not detected; the defect class is 'never times out'".into(),
            "if ::1 cannot be bound the IPv6 classes are skipped and counted".into(),
        ]
    }

    fn random_cases(&self, tier: Tier) -> u64 { tier.pick(120, 3_000) }

    fn hang_secs(&self) -> u64 { 120 }

    fn strategy(&self, _tier: Tier) -> BoxedStrategy<Case> {
        prop_oneof![
            (any::<bool>(), 0usize .. 70_000, 0usize .. 66_000, prop::option::of(0usize .. 70_000), any::<u8>()).prop_map(|(v6, s, r, q, salt)| {
                Case::UdpRaw { v6, send_len: s.min(65_507), reply_len: r.min(65_507), req_size: q, salt }
            }),
            (any::<bool>(), 0usize .. 200_000, 0usize .. 200_000, any::<u8>()).prop_map(|(v6, s, r, salt)| Case::TcpRaw { v6, send_len: s.max(1), reply_len: r, salt }),
        ]
        .boxed()
    }

    fn enumerated<'a>(&'a self, tier: Tier, shard: usize, nshards: usize) -> Box<dyn Iterator<Item = Case> + 'a> {
        let mut v = Vec::new();
        let nstates = tier.pick(1u64, 6);
        for (ti, (_, faults)) in targets().iter().enumerate() {
            for f in faults {
                for v6 in [false, true] {
                    for timeout_ms in [40u16, 120] {
                        for retries in 0u8 ..= 2 {
                            // (a partial reply needs a state whose reply spans several datagrams: more states are tried)
                            for idx in 0 .. if matches!(f, FaultPoint::Partial { .. }) { nstates.max(4) } else { nstates } {
                                if tier == Tier::Quick && *f == FaultPoint::None && (retries > 0 || timeout_ms == 40) {
                                    continue;
                                }
                                v.push(Case::Timeout { target: ti as u8, v6, timeout_ms, retries, fault: *f, idx, shape: 0 });
                                // the timeout that bounds the step is the only short one
                                if *f != FaultPoint::None && (retries == 0 || tier == Tier::Thorough) {
                                    v.push(Case::Timeout { target: ti as u8, v6, timeout_ms, retries, fault: *f, idx, shape: 1 + ((ti as u8 + timeout_ms as u8 + v6 as u8) & 1) });
                                    if tier == Tier::Thorough {
                                        v.push(Case::Timeout { target: ti as u8, v6, timeout_ms, retries, fault: *f, idx, shape: 2 - ((ti as u8 + timeout_ms as u8 + v6 as u8) & 1) });
                                    }
                                }
                            }
                        }
                    }
                }
            }
        }
        for v6 in [false, true] {
            for timeout_ms in [40u16, 120] {
                for shape in 0u8 .. 3 {
                    for (kind, targets) in [(0u8, 3u8), (1, 1), (2, 1), (3, 1), (4, 1)] {
                        for target in 0 .. targets {
                            for retries in 0u8 ..= tier.pick(0, 2) {
                                v.push(Case::Stall { kind, target, v6, timeout_ms, retries, shape });
                            }
                        }
                    }
                }
            }
        }
        {
            let protos = timeout_entries();
            let mut games: Vec<&str> = gamedig::GAMES.keys().copied().collect();
            games.sort();
            let mut k = 0usize;
            for e in &protos {
                for v6 in [false, true] {
                    for timeout_ms in [40u16, 120] {
                        for retries in 0u8 ..= 2 {
                            for shape in 0u8 .. 3 {
                                k += 1;
                                // quick: every entry point with each IP version and each shape once, retries 0 and 1
                                if tier == Tier::Quick && !(timeout_ms == 40 && retries < 2 && (shape + retries + v6 as u8) % 3 == (k % 3) as u8 || (timeout_ms == 40 && retries == 0 && shape > 0)) {
                                    continue;
                                }
                                v.push(Case::SilentAll { entry: e.clone(), v6, timeout_ms, retries, shape });
                            }
                        }
                    }
                }
            }
            for (i, g) in games.iter().enumerate() {
                if *g == "eco" {
                    continue; // HTTP: the stall cases above
                }
                for v6 in [false, true] {
                    for shape in 1u8 .. 3 {
                        if tier == Tier::Quick && (i + shape as usize + v6 as usize) % 4 != 0 {
                            continue;
                        }
                        v.push(Case::SilentAll { entry: Entry::Generic { game: g.to_string(), extra: None }, v6, timeout_ms: 40, retries: (i % 2) as u8, shape });
                    }
                }
            }
        }
        for v6 in [false, true] {
            for idx in 0 .. tier.pick(6u64, 200) {
                v.push(Case::HttpOk { v6, idx });
            }
        }
        let sizes = [0usize, 1, 1023, 1024, 1025, 1472, 6144, 65_507];
        for v6 in [false, true] {
            for (i, s) in sizes.iter().enumerate() {
                for (j, r) in sizes.iter().enumerate() {
                    if tier == Tier::Quick && (i + j) % 3 != 0 {
                        continue;
                    }
                    for q in [None, Some(*r), Some(r.saturating_sub(1)), Some(r + 1), Some(1024)] {
                        v.push(Case::UdpRaw { v6, send_len: *s, reply_len: *r, req_size: q, salt: (i * 8 + j) as u8 });
                    }
                    v.push(Case::TcpRaw { v6, send_len: (*s).max(1), reply_len: *r, salt: (i * 8 + j) as u8 });
                }
            }
        }
        Box::new(v.into_iter().enumerate().filter(move |(i, _)| i % nshards == shard).map(|(_, c)| c))
    }

    fn exhaustive_subspaces(&self, _tier: Tier) -> Vec<String> {
        vec!["every fault point of 7 protocols x IPv4/IPv6 x 2 timeouts x retries 0..=2; boundary payload sizes each way x requested sizes".into()]
    }

    fn run(&self, case: &Case) -> Outcome {
        let mut o = Outcome::new();
        match case {
            Case::SilentAll { entry, v6, timeout_ms, retries, shape } => {
                let ip = ip_of(*v6);
                o.label(format!("silent peer: {}", entry.label()));
                o.label(format!("timeout shape {shape}"));
                o.label(if *v6 { "ipv6" } else { "ipv4" });
                o.nontrivial = true;
                let Some(peer) = silent_peer(ip) else {
                    o.excluded = Some(format!("cannot bind {ip} (class skipped)"));
                    o.nontrivial = false;
                    return o;
                };
                let d = Duration::from_millis(*timeout_ms as u64);
                let t = shaped(0, d, *retries as usize, *shape);
                let attempts = *retries as u32 + 1;
                // at most six blocking steps per attempt (the Minecraft chain tries five variants)
                let limit = d * attempts * 6 + SLACK;
                let (e2, port) = (entry.clone(), peer.port);
                let res = bounded(limit, move || e2.call_full(&ip, Some(port), t).map(|_| ()));
                let name = match entry {
                    Entry::Generic { game, .. } => format!("games::query[{game}]"),
                    e => e.sig_name(),
                };
                let detail = |extra: serde_json::Value| json!({"ipv6": v6, "timeout_ms": timeout_ms, "retries": retries, "shape": shape, "limit_ms": limit.as_millis(), "info": extra});
                match res {
                    None => {
                        o.fail(format!("C12|{name}|silent peer|still blocked at the deadline (or panicked)"), detail(json!({})));
                    }
                    Some((Ok(()), _)) => {
                        o.fail(format!("C12|{name}|silent peer|wrong outcome|Ok"), detail(json!({})));
                    }
                    Some((Err(e), took)) => {
                        if !matches!(e.kind, GDErrorKind::PacketReceive | GDErrorKind::AutoQuery) {
                            let v6_unreachable = *v6 && matches!(e.kind, GDErrorKind::PacketSend | GDErrorKind::SocketBind);
                            let sig = if v6_unreachable { "C12|UdpSocket|IPv6 peer not reachable|PacketSend".to_string() } else { format!("C12|{name}|silent peer|wrong outcome|{:?}", e.kind) };
                            o.fail(sig, detail(json!({"took_ms": took.as_millis()})));
                        } else {
                            // "the number of attempts times the timeout": the peer must have been asked exactly attempts x (blocking steps) times.
                            // Datagrams and connections are counted after the query has returned.
                            let _ = peer._udp.set_nonblocking(true);
                            let _ = peer._tcp.set_nonblocking(true);
                            let mut buf = [0u8; 2048];
                            let mut datagrams = 0u32;
                            while peer._udp.recv_from(&mut buf).is_ok() {
                                datagrams += 1;
                            }
                            let mut connections = 0u32;
                            while peer._tcp.accept().is_ok() {
                                connections += 1;
                            }
                            let fam = entry.family();
                            // (UDP steps, TCP steps) of one attempt against a peer that never answers
                            let steps: Option<(u32, u32)> = match fam {
                                crate::entries::Family::McAuto => Some((1, 4)),
                                crate::entries::Family::McJava | crate::entries::Family::McLegacy(_) => Some((0, 1)),
                                crate::entries::Family::McLegacyAuto => Some((0, 3)),
                                crate::entries::Family::Http | crate::entries::Family::Master => None,
                                _ => Some((1, 0)),
                            };
                            if let Some((u, t)) = steps {
                                // (a TCP variant may re-send on the connection it has)
                                // (an entry point may also retry less: Savage 2 does not retry at all. The property bounds the wait from above.)
                                if datagrams > u * attempts || connections > t * attempts || datagrams + connections == 0 {
                                    o.fail(
                                        format!("C12|{name}|silent peer|asked {} often than attempts x steps", if datagrams > u * attempts || connections > t * attempts { "more" } else { "less" }),
                                        detail(json!({"datagrams": datagrams, "connections": connections, "expected_datagrams": u * attempts, "expected_connections": t * attempts, "took_ms": took.as_millis()})),
                                    );
                                }
                            }
                        }
                    }
                }
                drop(peer);
            }
            Case::HttpOk { v6, idx } => {
                use crate::models::eco::{eco_state, thread_server, thread_server_v6};
                o.label(if *v6 { "http-ok-ipv6" } else { "http-ok-ipv4" });
                o.nontrivial = true;
                let st = crate::runner::sample_one(&eco_state().boxed(), "C12-eco", *idx);
                let (Some(s4), s6) = (thread_server(), if *v6 { thread_server_v6() } else { None }) else {
                    o.excluded = Some("cannot bind the IPv4 loopback address (class skipped)".into());
                    o.nontrivial = false;
                    return o;
                };
                if *v6 && s6.is_none() {
                    o.excluded = Some("cannot bind ::1 (class skipped)".into());
                    o.nontrivial = false;
                    return o;
                }
                let server = s6.unwrap_or(s4);
                server.set_json(&st.body());
                let ip = ip_of(*v6);
                let port = server.port;
                let t = TimeoutSettings::new(Some(Duration::from_secs(3)), Some(Duration::from_secs(3)), Some(Duration::from_secs(3)), 0).ok();
                let res = bounded(Duration::from_secs(12), move || gamedig::games::eco::query_with_timeout(&ip, Some(port), &t));
                let host = if *v6 { "[::1]" } else { "127.0.0.1" };
                match res {
                    None => {
                        o.fail("C12|eco::query|answering server|blocked or panicked", json!({"ipv6": v6}));
                    }
                    Some((Err(e), _)) => {
                        o.fail(format!("C12|eco::query|answering server|{}|{:?}", if *v6 { "ipv6" } else { "ipv4" }, e.kind), json!({"ipv6": v6, "error": format!("{e:?}").chars().take(300).collect::<String>()}));
                    }
                    Some((Ok(got), _)) => {
                        let reqs = server.requests();
                        let ok = reqs.len() == 1
                            && reqs[0].0 == "GET /frontpage HTTP/1.1"
                            && reqs[0].1.iter().any(|(k, v)| k == "host" && (v == &format!("{host}:{port}") || v == host));
                        if !ok {
                            o.fail("C12|eco::query|answering server|the peer did not see exactly one GET /frontpage for its address", json!({"ipv6": v6, "requests": format!("{reqs:?}")}));
                        } else if got.description != st.expected().description {
                            o.fail("C12|eco::query|answering server|response is not the one served", json!({"ipv6": v6}));
                        }
                    }
                }
            }
            Case::Stall { kind, target, v6, timeout_ms, retries, shape } => {
                let ip = ip_of(*v6);
                let d = Duration::from_millis(*timeout_ms as u64);
                let attempts = *retries as u32 + 1;
                let limit = d * attempts * 6 + SLACK;
                let name = match (*kind, *target) {
                    (0, 0) => "connect stalls|minecraft::query_java",
                    (0, 1) => "connect stalls|minecraft::query_legacy_specific",
                    (0, _) => "connect stalls|eco::query",
                    (1, _) => "peer never reads|TcpSocket",
                    (2, _) => "http server silent|eco::query",
                    (3, _) => "http body stalls|eco::query",
                    _ => "http connection refused|eco::query",
                };
                o.label(format!("stall: {name}"));
                o.label(format!("timeout shape {shape}"));
                o.label(if *v6 { "ipv6" } else { "ipv4" });
                o.nontrivial = true;
                // which timeout has to bound the step
                let which = match *kind { 0 | 4 => 2, 1 => 1, _ => 0 };
                let t = shaped(which, d, *retries as usize, *shape);
                let skip = |o: &mut Outcome, why: String| {
                    o.excluded = Some(why);
                    o.nontrivial = false;
                };
                // keep the peer alive until the verdict
                let mut _stalled = None;
                let mut _plain = None;
                let mut _thread: Option<(std::sync::Arc<std::sync::atomic::AtomicBool>, std::thread::JoinHandle<()>)> = None;
                let mut _held: Option<crate::realnet::HeldPort> = None;
                let addr: SocketAddr = match *kind {
                    0 => match stalled_listener(ip) {
                        Some(s) => {
                            let a = s.addr;
                            _stalled = Some(s);
                            a
                        }
                        None => {
                            skip(&mut o, format!("no stalled listener on {ip} (class skipped)"));
                            return o;
                        }
                    },
                    1 | 2 => match std::net::TcpListener::bind(SocketAddr::new(ip, 0)) {
                        // connections complete in the accept queue; nobody ever reads or answers
                        Ok(l) => {
                            let a = l.local_addr().unwrap();
                            _plain = Some(l);
                            a
                        }
                        Err(_) => {
                            skip(&mut o, format!("cannot bind {ip} (class skipped)"));
                            return o;
                        }
                    },
                    3 => match std::net::TcpListener::bind(SocketAddr::new(ip, 0)) {
                        Ok(l) => {
                            let a = l.local_addr().unwrap();
                            let _ = l.set_nonblocking(true);
                            let stop = std::sync::Arc::new(std::sync::atomic::AtomicBool::new(false));
                            let stop2 = stop.clone();
                            let h = std::thread::spawn(move || {
                                use std::io::{Read, Write};
                                let mut held = Vec::new();
                                while !stop2.load(std::sync::atomic::Ordering::SeqCst) {
                                    if let Ok((mut c, _)) = l.accept() {
                                        let _ = c.set_nonblocking(false);
                                        let _ = c.set_read_timeout(Some(Duration::from_millis(200)));
                                        let mut buf = [0u8; 2048];
                                        let _ = c.read(&mut buf);
                                        let _ = c.write_all(b"HTTP/1.1 200 OK\r\nContent-Type: application/json\r\nContent-Length: 4096\r\n\r\n{\"Info\": {");
                                        let _ = c.flush();
                                        held.push(c);
                                    } else {
                                        std::thread::sleep(Duration::from_millis(2));
                                    }
                                }
                            });
                            _thread = Some((stop, h));
                            a
                        }
                        Err(_) => {
                            skip(&mut o, format!("cannot bind {ip} (class skipped)"));
                            return o;
                        }
                    },
                    _ => match refusing_tcp_port(ip) {
                        Some(p) => {
                            let a = SocketAddr::new(ip, p.port);
                            _held = Some(p);
                            a
                        }
                        None => {
                            skip(&mut o, "loopback address cannot be bound".into());
                            return o;
                        }
                    },
                };
                let (kind2, target2) = (*kind, *target);
                let res = bounded(limit, move || -> Result<(), gamedig::GDError> {
                    match (kind2, target2) {
                        (0, 0) => Entry::McJava.call_full(&ip, Some(addr.port()), t).map(|_| ()),
                        (0, 1) => Entry::McLegacySpecific(0).call_full(&ip, Some(addr.port()), t).map(|_| ()),
                        (1, _) => {
                            let mut s = RealTcpSocket::new(&addr, &t)?;
                            let big = vec![0x5Au8; 64 << 20];
                            s.send(&big)
                        }
                        _ => gamedig::games::eco::query_with_timeout(&ip, Some(addr.port()), &t).map(|_| ()),
                    }
                });
                if let Some((stop, h)) = _thread.take() {
                    stop.store(true, std::sync::atomic::Ordering::SeqCst);
                    let _ = h.join();
                }
                let detail = |extra: serde_json::Value| json!({"ipv6": v6, "timeout_ms": timeout_ms, "retries": retries, "shape": shape, "limit_ms": limit.as_millis(), "info": extra});
                match res {
                    None => {
                        o.fail(format!("C12|{name}|still blocked at the deadline (or panicked)"), detail(json!({})));
                    }
                    Some((Ok(()), took)) => {
                        o.fail(format!("C12|{name}|wrong outcome|Ok"), detail(json!({"took_ms": took.as_millis()})));
                    }
                    Some((Err(e), took)) => {
                        let want: Option<GDErrorKind> = match *kind {
                            0 if *target < 2 => Some(GDErrorKind::SocketConnect),
                            1 => Some(GDErrorKind::PacketSend),
                            _ => None, // HTTP: any error value
                        };
                        if let Some(w) = want {
                            if e.kind != w {
                                o.fail(format!("C12|{name}|wrong outcome|{:?}", e.kind), detail(json!({"took_ms": took.as_millis()})));
                            }
                        }
                        o.label(format!("stall outcome: {name}: {:?}", e.kind));
                    }
                }
            }
            Case::Timeout { target, v6, timeout_ms, retries, fault, idx, shape } => {
                let (entry, _) = targets().swap_remove(*target as usize);
                let fam = entry.family();
                let ip = ip_of(*v6);
                o.label(format!("{}:{fault:?}", entry.sig_name()));
                o.label(if *v6 { "ipv6" } else { "ipv4" });
                o.nontrivial = *v6 || matches!(fault, FaultPoint::Silent { unit, step } if *unit > 0 || *step > 0) || matches!(fault, FaultPoint::Partial { .. }) || *fault == FaultPoint::NoClose;
                let st = state_for_entry(&entry, *idx);
                let proto = match entry { Entry::McJava | Entry::McLegacySpecific(_) => Proto::Tcp, _ => Proto::Udp };
                let fault2 = *fault;
                let factory: crate::realnet::Factory = Box::new(move || {
                    let inner = st.responder();
                    match fault2 {
                        FaultPoint::Silent { unit, step } => Box::new(Faulty::new(inner, fam, unit, step, vec![Fault::Silent; 16]).0),
                        FaultPoint::Partial { unit, step } => Box::new(Faulty::new(inner, fam, unit, step, vec![Fault::Partial; 16]).0),
                        FaultPoint::NoClose => Box::new(NeverClose(inner)),
                        _ => inner,
                    }
                });
                let server;
                let _held;
                let port = if *fault == FaultPoint::Refused {
                    match refusing_tcp_port(ip) {
                        Some(p) => {
                            let port = p.port;
                            _held = p;
                            port
                        }
                        None => {
                            o.excluded = Some("loopback address cannot be bound".into());
                            o.nontrivial = false;
                            return o;
                        }
                    }
                } else {
                    match RealServer::start(proto, ip, factory) {
                        Some(s) => {
                            let p = s.addr.port();
                            server = s;
                            let _ = &server;
                            p
                        }
                        None => {
                            o.excluded = Some(format!("cannot bind {ip} (class skipped)"));
                            o.nontrivial = false;
                            return o;
                        }
                    }
                };
                let d = Duration::from_millis(*timeout_ms as u64);
                // a silent peer is bounded by the read timeout, a refused connection by nothing (immediate)
                let t = shaped(0, d, *retries as usize, *shape);
                o.label(format!("timeout shape {shape}"));
                let attempts = *retries as u32 + 1;
                let limit = d * attempts * 6 + SLACK;
                let e2 = entry.clone();
                let res = bounded(limit, move || e2.call_full(&ip, Some(port), t).map(|_| ()));
                let sig = |what: &str| format!("C12|{}|{fault:?}|{what}", entry.sig_name());
                match res {
                    None => {
                        o.fail(sig("still blocked at the deadline (or panicked)"), json!({"limit_ms": limit.as_millis(), "timeout_ms": timeout_ms, "retries": retries, "ipv6": v6}));
                    }
                    Some((r, took)) => {
                        let kind = r.as_ref().err().map(|e| e.kind.clone());
                        let mut r = r;
                        let mut kind = kind;
                        if *fault == FaultPoint::None && kind == Some(GDErrorKind::PacketReceive) {
                            // a healthy loopback server that did not answer within 40 / 120 ms was not scheduled in time: that says nothing
                            // about the code, so the case is judged on one more run with a patient timeout
                            let t2 = TimeoutSettings::new(Some(Duration::from_secs(3)), Some(Duration::from_secs(3)), Some(Duration::from_secs(3)), 0).ok();
                            let e3 = entry.clone();
                            if let Some((r2, _)) = bounded(Duration::from_secs(30), move || e3.call_full(&ip, Some(port), t2).map(|_| ())) {
                                o.label("healthy server: judged on a second, patient run");
                                kind = r2.as_ref().err().map(|e| e.kind.clone());
                                r = r2;
                            }
                        }
                        let ok = match fault {
                            FaultPoint::None => r.is_ok(),
                            FaultPoint::Refused => kind == Some(GDErrorKind::SocketConnect),
                            _ => kind == Some(GDErrorKind::PacketReceive),
                        };
                        if !ok {
                            let v6_unreachable = *v6 && proto == Proto::Udp && (kind == Some(GDErrorKind::PacketSend) || kind == Some(GDErrorKind::SocketBind));
                            let s = if v6_unreachable { "C12|UdpSocket|IPv6 peer not reachable|PacketSend".to_string() } else { sig("wrong outcome") };
                            o.fail(s, json!({"outcome": format!("{:?}", r.as_ref().map_err(|e| e.kind.clone())), "took_ms": took.as_millis(), "ipv6": v6, "timeout_ms": timeout_ms, "retries": retries}));
                        }
                    }
                }
            }
            Case::UdpRaw { v6, send_len, reply_len, req_size, salt } => {
                let ip = ip_of(*v6);
                o.label(if *v6 { "udp-raw-ipv6" } else { "udp-raw-ipv4" });
                o.label(match (*send_len).max(*reply_len) { 0 ..= 1024 => "payload<=1024", 1025 ..= 6144 => "payload<=6144", _ => "payload>6144" });
                o.nontrivial = *v6 || *send_len > 1024 || *reply_len > 1024;
                let payload = pattern(*send_len, *salt);
                let reply = pattern(*reply_len, salt.wrapping_add(77));
                let reply2 = reply.clone();
                let factory: crate::realnet::Factory = Box::new(move || {
                    Box::new(move |_p: Proto, _a: &SocketAddr, _n: usize, _d: &[u8], out: &mut Outbox| out.datagram(reply2.clone())) as Box<dyn Responder>
                });
                let Some(server) = RealServer::start(Proto::Udp, ip, factory) else {
                    o.excluded = Some(format!("cannot bind {ip} (class skipped)"));
                    o.nontrivial = false;
                    return o;
                };
                let addr = server.addr;
                let t = TimeoutSettings::new(Some(Duration::from_millis(1500)), Some(Duration::from_millis(1500)), None, 0).ok();
                let (p2, q) = (payload.clone(), *req_size);
                let res = bounded(Duration::from_secs(8), move || {
                    let mut s = RealUdpSocket::new(&addr, &t)?;
                    s.send(&p2)?;
                    s.receive(q)
                });
                let detail = |extra: serde_json::Value| json!({"ipv6": v6, "send_len": send_len, "reply_len": reply_len, "requested_size": req_size, "info": extra});
                match res {
                    None => {
                        o.fail("C12|UdpSocket|blocked or panicked", detail(json!({})));
                    }
                    Some((Err(e), _)) => {
                        let class = if *v6 { "IPv6 peer not reachable" } else { "send/receive failed" };
                        o.fail(format!("C12|UdpSocket|{class}|{:?}", e.kind), detail(json!({})));
                    }
                    Some((Ok(got), _)) => {
                        let want_len = req_size.unwrap_or(1024).min(reply.len());
                        if got != reply[.. want_len] {
                            o.fail("C12|UdpSocket|received bytes differ from the first min(size, len) bytes sent", detail(json!({"got_len": got.len(), "want_len": want_len})));
                        } else {
                            let seen = server.seen.lock().unwrap().received.clone();
                            if seen.len() != 1 || seen[0] != payload {
                                o.fail("C12|UdpSocket|server did not see exactly the bytes sent", detail(json!({"datagrams_seen": seen.len(), "first_len": seen.first().map(|d| d.len())})));
                            }
                        }
                    }
                }
            }
            Case::TcpRaw { v6, send_len, reply_len, salt } => {
                let ip = ip_of(*v6);
                o.label(if *v6 { "tcp-raw-ipv6" } else { "tcp-raw-ipv4" });
                o.nontrivial = *v6 || *send_len > 1024 || *reply_len > 1024;
                // a legacy-ping shaped request (starts with FE) so that the adapter treats what it has read as one request
                let mut payload = pattern(*send_len, *salt);
                payload[0] = 0xFE;
                if payload.len() > 1 {
                    // (not a run of repeated legacy pings, which the adapter hands over one by one)
                    payload[1] = 0x5A;
                }
                let reply = pattern(*reply_len, salt.wrapping_add(99));
                let (reply2, want_total) = (reply.clone(), payload.len());
                let factory: crate::realnet::Factory = Box::new(move || {
                    let mut got = 0usize;
                    Box::new(move |_p: Proto, _a: &SocketAddr, _n: usize, d: &[u8], out: &mut Outbox| {
                        got += d.len();
                        if got >= want_total {
                            out.stream(&reply2);
                            out.close();
                        }
                    }) as Box<dyn Responder>
                });
                let Some(server) = RealServer::start(Proto::Tcp, ip, factory) else {
                    o.excluded = Some(format!("cannot bind {ip} (class skipped)"));
                    o.nontrivial = false;
                    return o;
                };
                let addr = server.addr;
                let t = TimeoutSettings::new(Some(Duration::from_millis(3000)), Some(Duration::from_millis(3000)), Some(Duration::from_millis(3000)), 0).ok();
                let p2 = payload.clone();
                let res = bounded(Duration::from_secs(12), move || {
                    let mut s = RealTcpSocket::new(&addr, &t)?;
                    s.send(&p2)?;
                    s.receive(None)
                });
                let detail = |extra: serde_json::Value| json!({"ipv6": v6, "send_len": send_len, "reply_len": reply_len, "info": extra});
                match res {
                    None => {
                        o.fail("C12|TcpSocket|blocked or panicked", detail(json!({})));
                    }
                    Some((Err(e), _)) => {
                        o.fail(format!("C12|TcpSocket|send/receive failed|{:?}", e.kind), detail(json!({})));
                    }
                    Some((Ok(got), _)) => {
                        if got != reply {
                            o.fail("C12|TcpSocket|received bytes differ from the bytes sent", detail(json!({"got_len": got.len(), "want_len": reply.len()})));
                        } else {
                            let seen: Vec<u8> = server.seen.lock().unwrap().received.concat();
                            if seen != payload {
                                o.fail("C12|TcpSocket|server did not see exactly the bytes sent", detail(json!({"seen_len": seen.len(), "sent_len": payload.len()})));
                            }
                        }
                    }
                }
            }
        }
        o
    }
}
