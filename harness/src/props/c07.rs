//! C07 — single-game protocols and the HTTP/JSON game map every field.

use gamedig::games::{battalion1944, eco, ffow, jc2m, mindustry, savage2, theship};
use gamedig::protocols::types::GatherToggle;
use gamedig::protocols::valve::{self, GatheringSettings};
use gamedig::verif_hook::Proto;
use gamedig::GDErrorKind;
use proptest::prelude::*;
use serde::{Deserialize, Serialize};
use serde_json::json;
use std::net::{IpAddr, Ipv4Addr, SocketAddr};

use crate::models::eco::{eco_state, thread_server, EcoState};
use crate::models::gamespy::{DatagramServer, Gs3Server};
use crate::models::misc::*;
use crate::models::valve::{state_for, A2sState, Behave, EngineSel, ValveServer};
use crate::props::c02::{expected_game_response, fit, set_appid};
use crate::runner::{Outcome, Prop, Tier};
use crate::util::{doc_ip, expect_equal};
use crate::wire::{render_log, run_plain, run_scripted, Ended};

#[derive(Debug, Clone, Serialize, Deserialize)]
pub enum Case {
    Ffow(FfowState),
    Savage2(Savage2State),
    Jc2m(Jc2mState),
    Mindustry(MindustryState),
    /// missing: 0 none, 1 players silent, 2 rules silent
    TheShip { st: A2sState, missing: u8 },
    /// overrides: (bat_max_players_i, bat_player_count_s, bat_has_password_s, bat_name_s, bat_gamemode_s, bat_map_s)
    Battalion {
        st: A2sState,
        max: Option<u8>,
        count: Option<u8>,
        pass: Option<bool>,
        name: Option<String>,
        mode: Option<String>,
        map: Option<String>,
        /// the password flag as another text than Y / N (empty, lower case, longer ...): only `Y` means a password
        #[serde(default)]
        pass_text: Option<String>,
    },
    Eco(EcoState),
}

/// The response `theship::query` must derive from a The Ship server state.
pub fn expected_theship(st: &A2sState) -> theship::Response {
    let g = GatheringSettings { players: GatherToggle::Try, rules: GatherToggle::Try, check_app_id: true };
    let r = st.expected_response(&g);
    let ed = r.info.extra_data.clone();
    let ship = r.info.the_ship.unwrap();
    theship::Response {
        protocol_version: r.info.protocol_version,
        name: r.info.name,
        map: r.info.map,
        game_mode: r.info.game_mode,
        game_version: r.info.game_version,
        players: r.players.unwrap().iter().map(|p| theship::TheShipPlayer { name: p.name.clone(), score: p.score, duration: p.duration, deaths: p.deaths.unwrap(), money: p.money.unwrap() }).collect(),
        players_online: r.info.players_online,
        players_maximum: r.info.players_maximum,
        players_bots: r.info.players_bots,
        server_type: r.info.server_type,
        has_password: r.info.has_password,
        vac_secured: r.info.vac_secured,
        port: ed.as_ref().and_then(|e| e.port),
        steam_id: ed.as_ref().and_then(|e| e.steam_id),
        tv_port: ed.as_ref().and_then(|e| e.tv_port),
        tv_name: ed.as_ref().and_then(|e| e.tv_name.clone()),
        keywords: ed.as_ref().and_then(|e| e.keywords.clone()),
        rules: r.rules.unwrap(),
        mode: ship.mode,
        witnesses: ship.witnesses,
        duration: ship.duration,
    }
}

pub struct C07;

const ANY: &[char] = &[];

impl Prop for C07 {
    type Case = Case;

    fn id(&self) -> &'static str { "C07" }

    fn rule(&self) -> String {
        "random well-formed replies of Frontlines: Fuel of War (with 0-2 challenge rounds), Savage 2, Just Cause 2: Multiplayer (GameSpy 3 single packet, \
         0-100 players, reported vs listed count), Mindustry (optional trailing mode name), The Ship (A2S with ship block; players or rules withheld), \
         Battalion 1944 (each of the five rule overrides and bat_map_s present or absent) over the scripted transport, and Eco over a real loopback \
         HTTP/1.1 server (all 37 members, shuffled order, unknown member); each game's query must equal the expected response built from the wire \
         fields by a table written from the types' documentation. non-trivial = an optional trailing field, a player or an override is present; \
         distinct = digest of the case"
            .into()
    }

    fn assumptions(&self) -> Vec<String> {
        vec![
            "FFOW: the two bytes after the version and the byte after VAC are ignored; server type / environment letters as in A2S".into(),
            "JC2-MP: the 11 bytes after the header are 'splitnum', a NUL and two arbitrary bytes; the u16 count equals the number of listed players; the reply fits one 2048-byte datagram".into(),
            "Mindustry: strings contain no NUL, the reply fits 500 bytes".into(),
            "The Ship: the conversion must fail (PacketBad) when players or rules could not be gathered".into(),
            "Eco: the loopback server frames the body with Content-Length, with chunked transfer coding or by closing the connection (chosen by a digest of the body); floating point members are finite and compared with a relative tolerance of 1e-12 (JSON number parsing is not exact to the last bit)".into(),
        ]
    }

    fn random_cases(&self, tier: Tier) -> u64 { tier.pick(38_000, 1_900_000) }

    fn strategy(&self, _tier: Tier) -> BoxedStrategy<Case> {
        let ship = (state_for(EngineSel::Ship), prop_oneof![4 => Just(0u8), 1 => Just(1u8), 1 => Just(2u8)]).prop_map(|(mut st, missing)| {
            set_appid(&mut st, 2400);
            fit(&mut st);
            Case::TheShip { st, missing }
        });
        let bat = (
            state_for(EngineSel::Source(489_940, None)),
            prop::option::of(any::<u8>()),
            prop::option::of(any::<u8>()),
            prop::option::of(any::<bool>()),
            prop::option::of(crate::util::text(ANY, 30)),
            prop::option::of(crate::util::text(ANY, 12)),
            prop::option::of(crate::util::text(ANY, 12)),
            prop::option::weighted(0.25, prop_oneof![prop::sample::select(vec!["", "y", "Yes", "YN", "N ", " Y", "1", "true", "n"]).prop_map(|s| s.to_string()), crate::util::text(ANY, 4)]),
        )
            .prop_map(|(mut st, max, count, pass, name, mode, map, pass_text)| {
                set_appid(&mut st, 489_940);
                st.rules.retain(|(k, _)| !k.starts_with("bat_"));
                if let Some(v) = max {
                    st.rules.push(("bat_max_players_i".into(), v.to_string()));
                }
                if let Some(v) = count {
                    st.rules.push(("bat_player_count_s".into(), v.to_string()));
                }
                if let Some(t) = &pass_text {
                    st.rules.push(("bat_has_password_s".into(), t.clone()));
                } else if let Some(v) = pass {
                    st.rules.push(("bat_has_password_s".into(), if v { "Y".into() } else { "N".to_string() }));
                }
                if let Some(v) = &name {
                    st.rules.push(("bat_name_s".into(), v.clone()));
                }
                if let Some(v) = &mode {
                    st.rules.push(("bat_gamemode_s".into(), v.clone()));
                }
                if let Some(v) = &map {
                    st.rules.push(("bat_map_s".into(), v.clone()));
                }
                let r = st.rules.len() / 2;
                st.rules.rotate_left(r);
                fit(&mut st);
                Case::Battalion { st, max, count, pass, name, mode, map, pass_text }
            });
        prop_oneof![
            6 => ffow_state().prop_map(Case::Ffow),
            6 => savage2_state().prop_map(Case::Savage2),
            6 => jc2m_state().prop_map(Case::Jc2m),
            6 => mindustry_state().prop_map(Case::Mindustry),
            6 => ship,
            6 => bat,
            2 => eco_state().prop_map(Case::Eco),
        ]
        .boxed()
    }

    fn run(&self, case: &Case) -> Outcome {
        let mut o = Outcome::new();
        let ip = doc_ip();
        match case {
            Case::Ffow(st) => {
                o.label("ffow");
                o.label(format!("ffow-challenges={}", st.challenges.len()));
                o.nontrivial = !st.challenges.is_empty() || !st.name.is_empty();
                let run = run_scripted(Box::new(FfowServer::new(st.clone())), || ffow::query(&ip, Some(5478)));
                o.failure = expect_equal("C07", "ffow::query", &run, &st.expected(), &[]);
            }
            Case::Savage2(st) => {
                o.label("savage2");
                o.nontrivial = !st.name.is_empty();
                let server = DatagramServer { request: vec![0x01], reply: vec![st.datagram()] };
                let run = run_scripted(Box::new(server), || savage2::query(&ip, Some(11235)));
                o.failure = expect_equal("C07", "savage2::query", &run, &st.expected(), &[]);
            }
            Case::Jc2m(st) => {
                o.label("jc2m");
                o.label(match st.players.len() { 0 => "jc2m-players=0", 1..=3 => "jc2m-players=1-3", _ => "jc2m-players=4-100" });
                if let Some(n) = st.numplayers {
                    o.label(if (n as usize) < st.players.len() { "jc2m-reported<listed" } else { "jc2m-reported>=listed" });
                }
                o.nontrivial = !st.players.is_empty();
                let server = Gs3Server::new(st.challenge, [0xFF, 0xFF, 0xFF, 0x02], vec![st.datagram()]);
                let run = run_scripted(Box::new(server), || jc2m::query(&ip, Some(7777)));
                o.failure = expect_equal("C07", "jc2m::query", &run, &st.expected(), &[]);
            }
            Case::Mindustry(st) => {
                o.label(if st.mode_name.is_some() { "mindustry+modename" } else { "mindustry" });
                o.nontrivial = st.mode_name.is_some();
                let server = DatagramServer { request: MINDUSTRY_REQUEST.to_vec(), reply: vec![st.datagram()] };
                let run = run_scripted(Box::new(server), || mindustry::query(&ip, Some(6567), &None));
                o.failure = expect_equal("C07", "mindustry::query", &run, &st.expected(), &[]);
            }
            Case::TheShip { st, missing } => {
                o.label(format!("theship-missing={missing}"));
                o.nontrivial = !st.players.is_empty() || *missing != 0;
                let Some(mut server) = ValveServer::from_state(st) else {
                    o.excluded = Some("compressed class skipped: python3 bz2 co-process unavailable".into());
                    return o;
                };
                match missing {
                    1 => server.players.attempts = vec![Behave::Silent; 4],
                    2 => server.rules.attempts = vec![Behave::Silent; 4],
                    _ => {}
                }
                let run = run_scripted(Box::new(server), || theship::query(&ip, Some(27015)));
                if *missing == 0 {
                    let expected = expected_theship(st);
                    o.failure = expect_equal("C07", "theship::query", &run, &expected, &[".rules"]);
                } else {
                    match &run.ended {
                        Ended::Err(GDErrorKind::PacketBad) => {}
                        other => {
                            o.fail(format!("C07|theship::query|section missing but {}", other.kind_str()), json!({"missing": missing, "wire": render_log(&run.log[.. run.log.len().min(30)])}));
                        }
                    }
                }
            }
            Case::Battalion { st, max, count, pass, name, mode, map: _, pass_text } => {
                o.label("battalion1944");
                let n_over = max.is_some() as u8 + count.is_some() as u8 + pass.is_some() as u8 + name.is_some() as u8 + mode.is_some() as u8;
                o.label(format!("battalion-overrides={n_over}"));
                o.nontrivial = n_over > 0;
                let Some(server) = ValveServer::from_state(st) else {
                    o.excluded = Some("compressed class skipped: python3 bz2 co-process unavailable".into());
                    return o;
                };
                let run = run_scripted(Box::new(server), || battalion1944::query(&ip, Some(7780)));
                let g = GatheringSettings { players: GatherToggle::Try, rules: GatherToggle::Try, check_app_id: true };
                let mut e = expected_game_response(st, &g);
                if let Some(v) = max { e.players_maximum = *v; }
                if let Some(v) = count { e.players_online = *v; }
                if let Some(t) = pass_text { e.has_password = t == "Y"; } else if let Some(v) = pass { e.has_password = *v; }
                if let Some(v) = name { e.name = v.clone(); }
                if let Some(v) = mode { e.game = v.clone(); }
                e.rules.retain(|k, _| !k.starts_with("bat_"));
                o.failure = expect_equal("C07", "battalion1944::query", &run, &e, &[".rules"]);
                let _ = valve::Engine::new(0);
            }
            Case::Eco(st) => {
                o.label("eco");
                o.nontrivial = !st.names.is_empty() || !st.achievements.is_empty();
                let Some(server) = thread_server() else {
                    o.excluded = Some("eco skipped: cannot bind a loopback listener".into());
                    o.nontrivial = false;
                    return o;
                };
                // every way of framing the body: Content-Length, chunked, close-delimited
                let body = st.body();
                let salt = crate::runner::digest(body.as_bytes());
                let framing = (salt % 3) as u8;
                o.label(format!("eco-framing={}", ["content-length", "chunked", "close-delimited"][framing as usize]));
                o.label(match body.len() { 0 ..= 5012 => "eco-body<=5012", 5013 ..= 20_000 => "eco-body<=20000", _ => "eco-body>20000" });
                server.set_json_framed(&body, framing, salt);
                let lo = IpAddr::V4(Ipv4Addr::LOCALHOST);
                let port = server.port;
                let mut run = run_plain(|| eco::query(&lo, Some(port)));
                // a transport-class failure against a healthy loopback HTTP server is scheduling noise (seen once in two million cases, under
                // full load, not reproducible): the case is judged on a fresh request; a failure that persists three times is reported
                for _ in 0 .. 2 {
                    if !matches!(run.ended, Ended::Err(gamedig::GDErrorKind::PacketSend) | Ended::Err(gamedig::GDErrorKind::PacketReceive) | Ended::Err(gamedig::GDErrorKind::SocketConnect)) {
                        break;
                    }
                    o.label("eco-transport-retry");
                    std::thread::sleep(std::time::Duration::from_millis(20));
                    server.set_json_framed(&body, framing, salt);
                    run = run_plain(|| eco::query(&lo, Some(port)));
                }
                let expected = st.expected();
                // JSON number parsing is accurate to a few ULP only (serde_json without float_roundtrip):
                // floating-point members are compared with a relative tolerance of 1e-12
                if let Ended::Ok(got) = &mut run.ended {
                    let close = |a: f64, b: f64| a == b || (a - b).abs() <= 1e-12 * a.abs().max(b.abs());
                    if close(got.time_since_start, expected.time_since_start) { got.time_since_start = expected.time_since_start; }
                    if close(got.time_left, expected.time_left) { got.time_left = expected.time_left; }
                    if close(got.shelf_life_multiplier, expected.shelf_life_multiplier) { got.shelf_life_multiplier = expected.shelf_life_multiplier; }
                    if close(got.exhaustion_after_hours, expected.exhaustion_after_hours) { got.exhaustion_after_hours = expected.exhaustion_after_hours; }
                }
                o.failure = expect_equal("C07", "eco::query", &run, &expected, &["server_achievements_dict"]);
                if o.failure.is_none() {
                    let reqs = server.requests();
                    let ok = reqs.len() == 1
                        && reqs[0].0 == "GET /frontpage HTTP/1.1"
                        && reqs[0].1.iter().any(|(k, v)| k == "host" && (v == &format!("127.0.0.1:{port}") || v == "127.0.0.1"));
                    if !ok {
                        o.fail("C07|eco::query|request|not exactly one GET /frontpage with the Host of the address", json!({"requests": format!("{reqs:?}")}));
                    }
                }
                let _ = (Proto::Udp, SocketAddr::new(lo, port));
            }
        }
        o
    }
}
