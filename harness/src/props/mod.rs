use crate::runner::{run_prop, Opts};

pub mod c18;
pub mod c19;
pub mod c20;
pub mod hostile;
pub mod c02;
pub mod c03;
pub mod c04;
pub mod c05;
pub mod c06;
pub mod c07;
pub mod c08;
pub mod c09;
pub mod c10;
pub mod c11;
pub mod c14;
pub mod c15;
pub mod c16;
pub mod c12;
pub mod c17;

pub fn dispatch(id: &str, opts: &mut Opts) -> i32 {
    match id {
        "C01" => run_prop(&hostile::C01, opts),
        "C02" => run_prop(&c02::C02, opts),
        "C03" => run_prop(&c03::C03, opts),
        "C04" => run_prop(&c04::C04, opts),
        "C05" => run_prop(&c05::C05, opts),
        "C06" => run_prop(&c06::C06, opts),
        "C07" => run_prop(&c07::C07, opts),
        "C08" => run_prop(&c08::C08, opts),
        "C09" => run_prop(&c09::C09, opts),
        "C10" => run_prop(&c10::C10, opts),
        "C11" => run_prop(&c11::C11, opts),
        "C12" => run_prop(&c12::C12, opts),
        "C13" => run_prop(&hostile::C13, opts),
        "C14" => run_prop(&c14::C14, opts),
        "C15" => run_prop(&c15::C15, opts),
        "C16" => run_prop(&c16::C16, opts),
        "C17" => run_prop(&c17::C17, opts),
        "C18" => run_prop(&c18::C18, opts),
        "C19" => run_prop(&c19::C19, opts),
        "C20" => run_prop(&c20::C20, opts),
        _ => {
            eprintln!("unknown property id {id}");
            2
        }
    }
}
