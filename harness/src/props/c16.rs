//! C16 — master-server filters are encoded faithfully and paging is complete.

use gamedig::valve_master_server::{Filter, Region, SearchFilters, ValveMasterServer};
use proptest::prelude::*;
use serde::{Deserialize, Serialize};
use serde_json::json;
use std::cell::RefCell;
use std::collections::BTreeMap;
use std::net::SocketAddr;
use std::rc::Rc;

use crate::models::master::{parse_request, MasterServer, Pages};
use crate::runner::{Outcome, Prop, Tier};
use crate::util::{doc_ip, text};
use crate::wire::{hex, render_log, run_scripted, Ended};

/// Model of a filter: kind index 0..18 and its value.
#[derive(Debug, Clone, Serialize, Deserialize, PartialEq)]
pub enum FVal {
    B(bool),
    S(String),
    N(u32),
    Tags(Vec<String>),
}

#[derive(Debug, Clone, Serialize, Deserialize, PartialEq)]
pub struct F {
    pub kind: u8,
    pub val: FVal,
}

const KEYS: [&str; 18] = [
    "secure",
    "map",
    "password",
    "empty",
    "noplayers",
    "full",
    "appid",
    "napp",
    "gametype",
    "name_match",
    "version_match",
    "collapse_addr_hash",
    "gameaddr",
    "white",
    "proxy",
    "dedicated",
    "linux",
    "gamedir",
];

impl F {
    pub fn to_filter(&self) -> Filter {
        let b = || matches!(self.val, FVal::B(true));
        let s = || match &self.val { FVal::S(s) => s.clone(), _ => String::new() };
        let n = || match &self.val { FVal::N(n) => *n, _ => 0 };
        match self.kind {
            0 => Filter::IsSecured(b()),
            1 => Filter::RunsMap(s()),
            2 => Filter::CanHavePassword(b()),
            3 => Filter::CanBeEmpty(b()),
            4 => Filter::IsEmpty(b()),
            5 => Filter::CanBeFull(b()),
            6 => Filter::RunsAppID(n()),
            7 => Filter::NotAppID(n()),
            8 => Filter::HasTags(match &self.val { FVal::Tags(t) => t.clone(), _ => vec![] }),
            9 => Filter::MatchName(s()),
            10 => Filter::MatchVersion(s()),
            11 => Filter::RestrictUniqueIP(b()),
            12 => Filter::OnAddress(s()),
            13 => Filter::Whitelisted(b()),
            14 => Filter::SpectatorProxy(b()),
            15 => Filter::IsDedicated(b()),
            16 => Filter::RunsLinux(b()),
            _ => Filter::HasGameDir(s()),
        }
    }
    /// The condition as the Master Server Query Protocol writes it; None = the filter denotes no condition (empty tag list).
    pub fn condition(&self) -> Option<(String, String)> {
        let v = match &self.val {
            FVal::B(b) => if *b { "1".to_string() } else { "0".to_string() },
            FVal::S(s) => s.clone(),
            FVal::N(n) => n.to_string(),
            FVal::Tags(t) => {
                if t.is_empty() {
                    return None;
                }
                t.join(",")
            }
        };
        Some((KEYS[self.kind as usize].to_string(), v))
    }
}

const KINDS_BOOL: [u8; 10] = [0, 2, 3, 4, 5, 11, 13, 14, 15, 16];
const KINDS_STR: [u8; 5] = [1, 9, 10, 12, 17];
const FILTER_EXCL: &[char] = &['\\'];

fn filter() -> impl Strategy<Value = F> {
    prop_oneof![
        10 => (prop::sample::select(KINDS_BOOL.to_vec()), any::<bool>()).prop_map(|(kind, b)| F { kind, val: FVal::B(b) }),
        5 => (prop::sample::select(KINDS_STR.to_vec()), text(FILTER_EXCL, 24)).prop_map(|(kind, s)| F { kind, val: FVal::S(s) }),
        2 => (prop::sample::select(vec![6u8, 7]), any::<u32>()).prop_map(|(kind, n)| F { kind, val: FVal::N(n) }),
        1 => prop::collection::vec("[a-z0-9_]{1,8}", 0..4).prop_map(|t| F { kind: 8, val: FVal::Tags(t) }),
    ]
}

fn representative(kind: u8) -> F {
    let val = if KINDS_BOOL.contains(&kind) {
        FVal::B(kind % 2 == 0)
    } else if KINDS_STR.contains(&kind) {
        FVal::S(format!("v{kind}"))
    } else if kind == 8 {
        FVal::Tags(vec!["alpha".into(), "beta".into()])
    } else {
        FVal::N(440 + kind as u32)
    };
    F { kind, val }
}

#[derive(Debug, Clone, Serialize, Deserialize)]
pub enum Case {
    /// insertion sequence: (group 0 plain / 1 nand / 2 nor, filter); region index
    Filters { ops: Vec<(u8, F)>, region: u8, seed_ip: [u8; 4], seed_port: u16 },
    Paging {
        pages: Pages,
        region: u8,
        /// the filters of the complete query: every page request has to carry them
        #[serde(default)]
        ops: Vec<(u8, F)>,
    },
}

const REGIONS: [(Region, u8); 9] = [
    (Region::UsEast, 0x00),
    (Region::UsWest, 0x01),
    (Region::AmericaSouth, 0x02),
    (Region::Europe, 0x03),
    (Region::Asia, 0x04),
    (Region::Australia, 0x05),
    (Region::MiddleEast, 0x06),
    (Region::Africa, 0x07),
    (Region::Others, 0xFF),
];

pub struct C16;

impl Prop for C16 {
    type Case = Case;

    fn id(&self) -> &'static str { "C16" }

    fn rule(&self) -> String {
        "filters: ALL insertion sequences of length <= 3 over 18 filter kinds x {insert, insert_nand, insert_nor} with a representative value per kind (54 + 54^2 + 54^3), \
         every group size 1..=18 in every group, and random sequences of length 0-70 (incl. sequences that fill one group with 10-18 kinds) with generated values (strings without backslash / NUL, tag lists incl. empty, any u32) x 9 regions x random seed addresses: \
         the request sent by query_specific is parsed by a reference grammar of the Master Server Query Protocol (31 region 'ip:port' 00 filter 00; \\\\key\\\\value \
         conditions; \\\\nor\\\\N and \\\\nand\\\\N groups of N conditions) and must denote exactly the model's three groups (last insertion of a kind wins, compared as \
         sets). Paging: 1-6 pages of 0-230 distinct entries (unrelated addresses; one host with many neighbouring ports; one port on neighbouring hosts; three hosts taking turns; 0.0.0.0 with real ports; real addresses with port 0) with the 0.0.0.0:0 terminator at the end of the last page (also a terminator-only page): query() must return \
         the concatenation in order without the terminator, send exactly one request per page, seed request k+1 with the last address of page k, carry the region byte and the model's three filter groups (0-5 generated insertions, three pagings in four) in EVERY page request, and send nothing after \
         the terminator. non-trivial = a nand/nor insertion or at least two pages; distinct = digest of the case"
            .into()
    }

    fn assumptions(&self) -> Vec<String> {
        vec![
            "every page but the last holds at least one entry; no entry is 0.0.0.0:0; an address may be listed again (also as the first entry of the next page), (also as the last entry of a later page) but a page does not end on the address it was seeded with (the client takes that for no progress)".into(),
            "an empty tag list denotes no condition".into(),
        ]
    }

    fn random_cases(&self, tier: Tier) -> u64 { tier.pick(60_000, 2_000_000) }

    fn strategy(&self, _tier: Tier) -> BoxedStrategy<Case> {
        let ops = prop_oneof![
            6 => prop::collection::vec((0u8 .. 3, filter()), 0 .. 13),
            2 => prop::collection::vec((0u8 .. 3, filter()), 13 .. 70),
            // one group filled with many different kinds (group sizes of 10 and more need two digits)
            2 => (0u8 .. 3, prop::collection::vec(filter(), 20 .. 60), prop::collection::vec((0u8 .. 3, filter()), 0 .. 6)).prop_map(|(g, big, rest)| {
                let mut v: Vec<(u8, F)> = big.into_iter().map(|f| (g, f)).collect();
                v.extend(rest);
                v
            }),
        ];
        let page_ops = prop_oneof![1 => Just(Vec::new()), 3 => prop::collection::vec((0u8 .. 3, filter()), 1 .. 6)];
        let filters = (ops, 0u8 .. 9, any::<[u8; 4]>(), any::<u16>())
            .prop_map(|(ops, region, seed_ip, seed_port)| Case::Filters { ops, region, seed_ip, seed_port });
        let paging = (prop::collection::vec(prop_oneof![3 => 1usize..6, 2 => 6usize..60, 1 => 200usize..231, 1 => Just(230usize)], 1 .. 7), any::<u32>(), 0u8 .. 9, any::<bool>(), page_ops)
            .prop_map(|(sizes, salt, region, empty_last, ops)| {
                let mut n: u32 = salt | 1;
                let mut sizes = sizes;
                if empty_last {
                    *sizes.last_mut().unwrap() = 0;
                }
                let pages = sizes
                    .iter()
                    .map(|sz| {
                        (0 .. *sz)
                            .map(|_| {
                                // distinct, non-zero addresses: a counter scrambled by an odd multiplier
                                n = n.wrapping_add(2);
                                let x = n.wrapping_mul(2_654_435_761);
                                let k = n >> 1;
                                match salt % 6 {
                                    // the unspecified address with a real port, and a real address with port 0: neither is the 0.0.0.0:0 terminator
                                    4 => ([0, 0, 0, 0], 1 + (k % 0xFFFF) as u16),
                                    5 => ([10, (k >> 16) as u8, (k >> 8) as u8, k as u8], 0),
                                    // unrelated addresses
                                    0 => ([(x >> 24) as u8 | 1, (x >> 16) as u8, (x >> 8) as u8, x as u8], (n >> 3) as u16 | 1),
                                    // one host runs many servers on neighbouring ports (consecutive entries share the address)
                                    1 => ([10, (k >> 24) as u8, (k >> 16) as u8, (k >> 12) as u8 | 1], 27_000 + (k & 0xFFF) as u16),
                                    // the same port on neighbouring hosts
                                    2 => ([172, (k >> 16) as u8, (k >> 8) as u8, k as u8], 27_015),
                                    // three hosts taking turns, ports counting up
                                    _ => ([192, 168, 1, 1 + (k % 3) as u8], 1 + ((k / 3) % 0xFFFF) as u16),
                                }
                            })
                            .collect()
                    })
                    .collect();
                // repeated listings: with some salts the next page begins with the address the previous page ended on, or repeats an
                // earlier entry in its middle (a page never ENDS on the address it was seeded with: the client takes that for "no progress")
                let mut pages: Vec<Vec<([u8; 4], u16)>> = pages;
                if (salt >> 8) % 3 == 0 {
                    for i in 1 .. pages.len() {
                        if let Some(prev_last) = pages[i - 1].last().copied() {
                            if pages[i].len() >= 2 {
                                if (salt >> 10) % 3 == 2 && i + 1 < pages.len() && pages[i - 1].len() >= 2 {
                                    // a page that is not the last one ENDS on an address listed earlier (not the one it was seeded with)
                                    let earlier = pages[i - 1][0];
                                    if let Some(l) = pages[i].last_mut() {
                                        *l = earlier;
                                    }
                                } else if (salt >> 10) % 2 == 0 {
                                    pages[i][0] = prev_last;
                                } else {
                                    let mid = pages[i].len() / 2;
                                    if mid + 1 < pages[i].len() {
                                        pages[i][mid] = pages[i - 1][0];
                                    }
                                }
                            }
                        }
                    }
                }
                Case::Paging { pages: Pages { pages }, region, ops }
            });
        prop_oneof![3 => filters, 1 => paging].boxed()
    }

    fn enumerated<'a>(&'a self, tier: Tier, shard: usize, nshards: usize) -> Box<dyn Iterator<Item = Case> + 'a> {
        let maxlen = tier.pick(2u32, 3);
        let total: u64 = (1 ..= maxlen).map(|l| 54u64.pow(l)).sum();
        let it = (0 .. total).filter(move |k| *k as usize % nshards == shard).map(move |mut k| {
            let mut len = 1;
            let mut block = 54u64;
            while k >= block {
                k -= block;
                block *= 54;
                len += 1;
            }
            let mut ops = Vec::new();
            for _ in 0 .. len {
                let d = (k % 54) as u8;
                k /= 54;
                ops.push((d / 18, representative(d % 18)));
            }
            Case::Filters { ops, region: (k % 9) as u8, seed_ip: [0, 0, 0, 0], seed_port: 0 }
        });
        // every group size 1..=18 in every group (the count field grows to two digits)
        let sizes = (0u8 .. 3).flat_map(|g| (1u8 ..= 18).map(move |n| (g, n))).enumerate().filter(move |(i, _)| i % nshards == shard).map(|(_, (g, n))| {
            Case::Filters { ops: (0 .. n).map(|k| (g, representative((k * 7 + g) % 18))).collect(), region: g, seed_ip: [0, 0, 0, 0], seed_port: 0 }
        });
        Box::new(it.chain(sizes))
    }

    fn exhaustive_subspaces(&self, tier: Tier) -> Vec<String> {
        vec![format!("all insertion sequences of length <= {} over 18 kinds x 3 groups (one representative value per kind)", tier.pick(2, 3))]
    }

    fn run(&self, case: &Case) -> Outcome {
        let mut o = Outcome::new();
        let addr = SocketAddr::new(doc_ip(), 27011);
        match case {
            Case::Filters { ops, region, seed_ip, seed_port } => {
                o.label(format!("filters-len={}", ops.len().min(4)));
                {
                    let mut kinds: [std::collections::BTreeSet<u8>; 3] = Default::default();
                    for (g, f) in ops {
                        kinds[*g as usize].insert(f.kind);
                    }
                    let m = kinds.iter().map(|k| k.len()).max().unwrap_or(0);
                    o.label(match m { 0 ..= 3 => "largest-group<=3", 4 ..= 9 => "largest-group=4-9", _ => "largest-group>=10" });
                }
                o.nontrivial = ops.iter().any(|(g, _)| *g != 0);
                if ops.iter().any(|(g, _)| *g == 1) { o.label("has-nand"); }
                if ops.iter().any(|(g, _)| *g == 2) { o.label("has-nor"); }
                // model: three groups keyed by kind
                let mut groups: [BTreeMap<u8, F>; 3] = [BTreeMap::new(), BTreeMap::new(), BTreeMap::new()];
                let mut sf = SearchFilters::new();
                for (g, f) in ops {
                    groups[*g as usize].insert(f.kind, f.clone());
                    sf = match g {
                        0 => sf.insert(f.to_filter()),
                        1 => sf.insert_nand(f.to_filter()),
                        _ => sf.insert_nor(f.to_filter()),
                    };
                }
                let (reg, reg_byte) = REGIONS[*region as usize % 9];
                let seed = format!("{}.{}.{}.{}", seed_ip[0], seed_ip[1], seed_ip[2], seed_ip[3]);
                let requests = Rc::new(RefCell::new(Vec::new()));
                let server = MasterServer { datagrams: vec![crate::models::master::encode_page(&[], true)], next: 0, requests: requests.clone() };
                let filters = if ops.is_empty() && *seed_port % 2 == 0 { None } else { Some(sf) };
                let run = run_scripted(Box::new(server), || {
                    let mut m = ValveMasterServer::new(&addr)?;
                    m.query_specific(reg, &filters, &seed, *seed_port)
                });
                let reqs = requests.borrow().clone();
                let detail = |extra: serde_json::Value| json!({"ops": format!("{ops:?}"), "request": reqs.first().map(|r| String::from_utf8_lossy(r).to_string()), "request_hex": reqs.first().map(|r| hex(r)), "info": extra, "result": run.ended.kind_str()});
                if reqs.len() != 1 {
                    o.fail("C16|query_specific|request count", detail(json!({"requests": reqs.len()})));
                    return o;
                }
                let parsed = match parse_request(&reqs[0]) {
                    Ok(p) => p,
                    Err(e) => {
                        o.fail("C16|query_specific|request does not conform to the protocol grammar", detail(json!({"grammar_error": e})));
                        return o;
                    }
                };
                if parsed.region != reg_byte {
                    o.fail("C16|query_specific|region byte", detail(json!({"got": parsed.region, "want": reg_byte})));
                    return o;
                }
                if parsed.seed != format!("{seed}:{seed_port}") {
                    o.fail("C16|query_specific|seed address", detail(json!({"got": parsed.seed, "want": format!("{seed}:{seed_port}")})));
                    return o;
                }
                let names = ["plain", "nand", "nor"];
                for (gi, got) in [&parsed.plain, &parsed.nand, &parsed.nor].into_iter().enumerate() {
                    let mut want: Vec<(String, String)> = groups[gi].values().filter_map(|f| f.condition()).collect();
                    let mut got = got.clone();
                    want.sort();
                    got.sort();
                    if got != want {
                        o.fail(format!("C16|filters|{} group differs", names[gi]), detail(json!({"group": names[gi], "got": got, "want": want})));
                        return o;
                    }
                }
            }
            Case::Paging { pages, region, ops } => {
                o.label(if ops.is_empty() { "paging-without-filters" } else { "paging-with-filters" });
                o.label(format!("pages={}", pages.pages.len()));
                if pages.pages.last().map(|p| p.is_empty()).unwrap_or(false) { o.label("terminator-only-last-page"); }
                if pages.pages.iter().any(|p| p.len() == 230) { o.label("page-of-230"); }
                o.nontrivial = pages.pages.len() >= 2;
                let (reg, reg_byte) = REGIONS[*region as usize % 9];
                let mut groups: [BTreeMap<u8, F>; 3] = [BTreeMap::new(), BTreeMap::new(), BTreeMap::new()];
                let mut sf = SearchFilters::new();
                for (g, f) in ops {
                    groups[*g as usize].insert(f.kind, f.clone());
                    sf = match g {
                        0 => sf.insert(f.to_filter()),
                        1 => sf.insert_nand(f.to_filter()),
                        _ => sf.insert_nor(f.to_filter()),
                    };
                }
                let filters = if ops.is_empty() { None } else { Some(sf) };
                let requests = Rc::new(RefCell::new(Vec::new()));
                let server = MasterServer { datagrams: pages.datagrams(), next: 0, requests: requests.clone() };
                let run = run_scripted(Box::new(server), || {
                    let mut m = ValveMasterServer::new(&addr)?;
                    m.query(reg, filters)
                });
                let reqs = requests.borrow().clone();
                let detail = |extra: serde_json::Value| json!({"page_sizes": pages.pages.iter().map(|p| p.len()).collect::<Vec<_>>(), "requests": reqs.iter().map(|r| String::from_utf8_lossy(r).to_string()).collect::<Vec<_>>(), "info": extra, "result": run.ended.kind_str(), "wire": render_log(&run.log[.. run.log.len().min(16)])});
                match &run.ended {
                    Ended::Ok(list) => {
                        let want = pages.all();
                        if *list != want {
                            let what = if list.len() == want.len() + 1 { "terminator kept" } else if list.len() != want.len() { "wrong number of addresses" } else { "wrong addresses or order" };
                            o.fail(format!("C16|query|paging|{what}"), detail(json!({"got_len": list.len(), "want_len": want.len()})));
                            return o;
                        }
                    }
                    other => {
                        o.fail(format!("C16|query|paging|query failed|{}", other.kind_str()), detail(json!({})));
                        return o;
                    }
                }
                if reqs.len() != pages.pages.len() {
                    o.fail(format!("C16|query|paging|{} requests than pages", if reqs.len() > pages.pages.len() { "more" } else { "fewer" }), detail(json!({})));
                    return o;
                }
                let mut seed = "0.0.0.0:0".to_string();
                for (k, r) in reqs.iter().enumerate() {
                    match parse_request(r) {
                        Ok(p) => {
                            if p.seed != seed {
                                o.fail("C16|query|paging|follow-up not seeded with the last address of the previous page", detail(json!({"request": k, "got": p.seed, "want": seed})));
                                return o;
                            }
                            if p.region != reg_byte {
                                o.fail("C16|query|paging|region byte of a page request", detail(json!({"request": k, "got": p.region, "want": reg_byte})));
                                return o;
                            }
                            let names = ["plain", "nand", "nor"];
                            for (gi, got) in [&p.plain, &p.nand, &p.nor].into_iter().enumerate() {
                                let mut want: Vec<(String, String)> = groups[gi].values().filter_map(|f| f.condition()).collect();
                                let mut got = got.clone();
                                want.sort();
                                got.sort();
                                if got != want {
                                    o.fail(format!("C16|query|paging|{} group of {} differs", names[gi], if k == 0 { "the first request" } else { "a follow-up request" }), detail(json!({"request": k, "got": got, "want": want})));
                                    return o;
                                }
                            }
                        }
                        Err(e) => {
                            o.fail("C16|query|request does not conform to the protocol grammar", detail(json!({"grammar_error": e})));
                            return o;
                        }
                    }
                    if let Some((ip, port)) = pages.pages[k].last() {
                        seed = format!("{}.{}.{}.{}:{}", ip[0], ip[1], ip[2], ip[3], port);
                    }
                }
            }
        }
        o
    }
}
