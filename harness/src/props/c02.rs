//! C02 — Valve A2S replies are decoded field for field.

use gamedig::protocols::types::GatherToggle;
use gamedig::protocols::valve::{self, game, GatheringSettings};
use proptest::prelude::*;
use serde::{Deserialize, Serialize};
use std::net::{IpAddr, SocketAddr};

use crate::models::valve::{fit_framing, state, state_for, A2sState, Edf, EngineSel, Framing, Kind, ValveServer};
use crate::runner::{sample_one, Outcome, Prop, Tier};
use crate::util::{doc_ip, expect_equal};
use crate::wire::run_scripted;

#[derive(Debug, Clone, Serialize, Deserialize)]
pub struct Case {
    pub state: A2sState,
    /// None: protocol-level valve::query; Some(i): games::<WRAPPERS[i]>::query
    pub wrapper: Option<usize>,
}

type GameFn = fn(&IpAddr, Option<u16>) -> gamedig::GDResult<game::Response>;

pub struct Wrapper {
    pub id: &'static str,
    pub f: GameFn,
    pub engine: EngineSel,
    pub port: u16,
    pub gather: GatheringSettings,
}

const fn gs(p: GatherToggle, r: GatherToggle, c: bool) -> GatheringSettings {
    GatheringSettings {
        players: p,
        rules: r,
        check_app_id: c,
    }
}

/// Per-game wrappers sampled by C02 (parameters as documented in GAMES.md / the game modules' docs).
pub fn wrappers() -> Vec<Wrapper> {
    use GatherToggle::*;
    vec![
        Wrapper { id: "teamfortress2", f: gamedig::games::teamfortress2::query, engine: EngineSel::Source(440, None), port: 27015, gather: gs(Try, Try, true) },
        Wrapper { id: "csgo", f: gamedig::games::csgo::query, engine: EngineSel::Source(730, None), port: 27015, gather: gs(Try, Try, true) },
        Wrapper { id: "css", f: gamedig::games::css::query, engine: EngineSel::Css, port: 27015, gather: gs(Try, Try, true) },
        Wrapper { id: "counterstrike", f: gamedig::games::counterstrike::query, engine: EngineSel::GoldSrc(false), port: 27015, gather: gs(Try, Try, true) },
        Wrapper { id: "ohd", f: gamedig::games::ohd::query, engine: EngineSel::Source(736_590, Some(950_900)), port: 27005, gather: gs(Try, Try, true) },
        Wrapper { id: "ror2", f: gamedig::games::ror2::query, engine: EngineSel::Ror2, port: 27016, gather: gs(Try, Try, true) },
        Wrapper { id: "aapg", f: gamedig::games::aapg::query, engine: EngineSel::Source(203_290, None), port: 27020, gather: gs(Enforce, Skip, true) },
        Wrapper { id: "conanexiles", f: gamedig::games::conanexiles::query, engine: EngineSel::Source(440_900, None), port: 27015, gather: gs(Skip, Enforce, true) },
        Wrapper { id: "rust", f: gamedig::games::rust::query, engine: EngineSel::Source(252_490, None), port: 27015, gather: gs(Try, Try, true) },
        Wrapper { id: "starbound", f: gamedig::games::starbound::query, engine: EngineSel::Source(211_820, None), port: 21025, gather: gs(Enforce, Enforce, false) },
    ]
}

pub fn expected_game_response(st: &A2sState, gather: &GatheringSettings) -> game::Response {
    let r = st.expected_response(gather);
    let ed = r.info.extra_data.clone();
    game::Response {
        protocol: r.info.protocol_version,
        name: r.info.name,
        map: r.info.map,
        game: r.info.game_mode,
        appid: r.info.appid,
        players_online: r.info.players_online,
        players_details: r
            .players
            .unwrap_or_default()
            .iter()
            .map(|p| {
                game::Player {
                    name: p.name.clone(),
                    score: p.score,
                    duration: p.duration,
                }
            })
            .collect(),
        players_maximum: r.info.players_maximum,
        players_bots: r.info.players_bots,
        server_type: r.info.server_type,
        has_password: r.info.has_password,
        vac_secured: r.info.vac_secured,
        version: r.info.game_version,
        port: ed.as_ref().and_then(|e| e.port),
        steam_id: ed.as_ref().and_then(|e| e.steam_id),
        tv_port: ed.as_ref().and_then(|e| e.tv_port),
        tv_name: ed.as_ref().and_then(|e| e.tv_name.clone()),
        keywords: ed.as_ref().and_then(|e| e.keywords.clone()),
        rules: r.rules.unwrap_or_default(),
    }
}

/// Make the state's app id the one the engine expects (through the 16-bit field, or the game id when it does not fit).
pub fn set_appid(st: &mut A2sState, appid: u32) {
    st.info.appid = (appid & 0xFFFF) as u16;
    let need_gid = appid > 0xFFFF;
    match &mut st.info.edf {
        Some(e) => {
            if let Some(g) = &mut e.game_id {
                *g = (*g & !0xFF_FFFF) | appid as u64;
            } else if need_gid {
                e.game_id = Some(appid as u64);
            }
        }
        None => {
            if need_gid {
                st.info.edf = Some(Edf {
                    port: None,
                    steam_id: None,
                    tv: None,
                    keywords: None,
                    game_id: Some(appid as u64),
                });
            }
        }
    }
}

/// Keep every datagram within the client's receive size.
pub fn fit(st: &mut A2sState) {
    let g = st.engine.is_goldsrc();
    st.t_info.framing = fit_framing(st.encode_info().len(), st.t_info.framing.clone(), g);
    st.t_players.framing = fit_framing(st.encode_players().len(), st.t_players.framing.clone(), g);
    st.t_rules.framing = fit_framing(st.encode_rules().len(), st.t_rules.framing.clone(), g);
}

fn force_mask(st: &mut A2sState, mask: u8) {
    let filler = st.info.edf.clone().unwrap_or(Edf {
        port: None,
        steam_id: None,
        tv: None,
        keywords: None,
        game_id: None,
    });
    st.info.edf = Some(Edf {
        port: if mask & 0x80 != 0 { Some(filler.port.unwrap_or(27015)) } else { None },
        steam_id: if mask & 0x10 != 0 { Some(filler.steam_id.unwrap_or(0x0110_0001_0203_0405)) } else { None },
        tv: if mask & 0x40 != 0 { Some(filler.tv.unwrap_or((27020, "Source TV".into()))) } else { None },
        keywords: if mask & 0x20 != 0 { Some(filler.keywords.unwrap_or("a,b,c".into())) } else { None },
        game_id: if mask & 0x01 != 0 { Some(filler.game_id.unwrap_or(0x0123_4567_89AB_CDEF)) } else { None },
    });
}

pub fn framing_label(f: &Framing) -> String {
    match f {
        Framing::Single => "single".into(),
        Framing::Split { cuts, compressed } => {
            format!("{}split{}", if *compressed { "bz2-" } else { "" }, if cuts.len() + 1 > 4 { "5+" } else { "2-4" })
        }
    }
}

static FIDELITY_RETRIES: std::sync::atomic::AtomicU64 = std::sync::atomic::AtomicU64::new(0);
static FIDELITY: std::sync::atomic::AtomicU64 = std::sync::atomic::AtomicU64::new(0);

pub struct C02;

impl Prop for C02 {
    type Case = Case;

    fn id(&self) -> &'static str { "C02" }

    fn rule(&self) -> String {
        "random A2S server states (8 engine classes, full-range numeric fields, UTF-8 strings, all EDF flag combinations, The Ship fields, \
         obsolete GoldSrc layout with mod block, 0-255 players, 0-400 rules, a fixed 65535-rule case, and two compressed split replies of 0.6 MB and 3.9 MB decompressed size) with a random transport per section \
         (0-3 challenge rounds, single datagram / Source split 2-15 / GoldSrc split / bzip2-compressed split via an independent libbz2) are \
         served by a reactive reference server; valve::query (and, for ten per-game wrappers, games::<game>::query) must return exactly the \
         expected response. All 32 EDF masks are emitted deterministically in every run. non-trivial = an EDF flag, a player, a rule, a \
         challenge round or a split transport is present; distinct = digest of the state"
            .into()
    }

    fn assumptions(&self) -> Vec<String> {
        vec![
            "The Ship per-player deaths/money are placed directly after each player entry (the implementation's reading; the public document is ambiguous to me offline)".into(),
            "obsolete GoldSrc address field is a non-empty ip:port text; server-type/environment bytes are from the documented sets; visibility and VAC are 0 or 1".into(),
            "split replies for app 240 with protocol 7 omit the packet-size field for players/rules (the implementation's stated quirk)".into(),
            "f32 durations exclude NaN (compared with ==)".into(),
            "compressed class needs python3 (bz2); when unavailable it is skipped and counted".into(),
        ]
    }

    fn random_cases(&self, tier: Tier) -> u64 { tier.pick(40_000, 2_000_000) }

    fn extra_evidence(&self) -> serde_json::Value {
        serde_json::json!({"traces_validated_against_impl": FIDELITY.load(std::sync::atomic::Ordering::Relaxed),
                           "traces_retried_after_a_differing_real_socket_run": FIDELITY_RETRIES.load(std::sync::atomic::Ordering::Relaxed),
                           "traces_validated_note": "cases replayed over real loopback UDP sockets with the same reference server; the result must equal the scripted-transport result"})
    }

    fn strategy(&self, _tier: Tier) -> BoxedStrategy<Case> {
        let n = wrappers().len();
        prop_oneof![
            4 => state().prop_map(|mut st| { fit(&mut st); Case { state: st, wrapper: None } }),
            1 => (0..n).prop_flat_map(|i| {
                let w = &wrappers()[i];
                let engine = w.engine;
                (state_for(engine), any::<u8>()).prop_map(move |(mut st, pick)| {
                    if let Some((main, ded)) = engine.expected_ids() {
                        let id = match ded { Some(d) if pick % 2 == 1 => d, _ => main };
                        set_appid(&mut st, id);
                    }
                    fit(&mut st);
                    Case { state: st, wrapper: Some(i) }
                })
            }),
        ]
        .boxed()
    }

    fn enumerated<'a>(&'a self, tier: Tier, shard: usize, nshards: usize) -> Box<dyn Iterator<Item = Case> + 'a> {
        let mut v: Vec<Case> = Vec::new();
        let reps = tier.pick(2u64, 20);
        let engines = [EngineSel::SourceNone, EngineSel::Source(440, None), EngineSel::Ship, EngineSel::Css, EngineSel::GoldSrc(false)];
        let mut k = 0u64;
        for mask in 0u8 .. 32 {
            // the five EDF bits are 80,10,40,20,01
            let m = (if mask & 1 != 0 { 0x80 } else { 0 })
                | (if mask & 2 != 0 { 0x10 } else { 0 })
                | (if mask & 4 != 0 { 0x40 } else { 0 })
                | (if mask & 8 != 0 { 0x20 } else { 0 })
                | (if mask & 16 != 0 { 0x01 } else { 0 });
            for e in engines {
                for _ in 0 .. reps {
                    k += 1;
                    if k as usize % nshards != shard {
                        continue;
                    }
                    let mut st = sample_one(&state_for(e), "C02-edf", k);
                    force_mask(&mut st, m);
                    fit(&mut st);
                    v.push(Case { state: st, wrapper: None });
                }
            }
        }
        // boundary sizes
        if shard == 0 {
            for (i, e) in [EngineSel::SourceNone, EngineSel::GoldSrc(false), EngineSel::Ship].into_iter().enumerate() {
                let mut st = sample_one(&state_for(e), "C02-big", i as u64);
                let p = sample_one(&crate::models::valve::player(), "C02-bigp", 1);
                st.players = (0 .. 255).map(|n| { let mut q = p.clone(); q.index = n as u8; q.name = format!("player {n} é"); q }).collect();
                st.rules = if e.is_goldsrc() {
                    (0 .. 3000).map(|n| (format!("rule_{n}"), format!("v{n}"))).collect()
                } else {
                    (0 .. 65535).map(|n| (format!("r{n}"), format!("{}", n % 7))).collect()
                };
                fit(&mut st);
                v.push(Case { state: st.clone(), wrapper: None });
                st.players.clear();
                st.rules.clear();
                st.info.edf = None;
                fit(&mut st);
                v.push(Case { state: st, wrapper: None });
            }
            // compressed split replies whose decompressed size is large but legal (the client's sanity bound is 4 MiB): 65535 rules of
            // about 9 bytes (0.6 MB) and of about 60 bytes (3.9 MB)
            for (i, width) in [1usize, 50].into_iter().enumerate() {
                let mut st = sample_one(&state_for(EngineSel::SourceNone), "C02-bigz", i as u64);
                st.rules = (0 .. 65535).map(|n| (format!("r{n}"), format!("{:0width$}", n % 7, width = width))).collect();
                st.t_rules.framing = Framing::Split { cuts: vec![], compressed: true };
                st.t_rules.challenges.clear();
                fit(&mut st);
                v.push(Case { state: st, wrapper: None });
            }
        }
        Box::new(v.into_iter())
    }

    fn exhaustive_subspaces(&self, _tier: Tier) -> Vec<String> {
        vec!["all 32 extra-data flag combinations x 5 engine classes (with random other fields)".into()]
    }

    fn run(&self, case: &Case) -> Outcome {
        let mut o = Outcome::new();
        let st = &case.state;
        o.label(format!("engine={:?}", match st.engine { EngineSel::Source(_, None) => "Source(id)".to_string(), EngineSel::Source(_, Some(_)) => "Source(id,dedicated)".to_string(), e => format!("{e:?}") }));
        o.label(format!("info:{}", framing_label(&st.t_info.framing)));
        o.label(format!("players:{}", framing_label(&st.t_players.framing)));
        o.label(format!("rules:{}", framing_label(&st.t_rules.framing)));
        let ch = st.t_info.challenges.len() + st.t_players.challenges.len() + st.t_rules.challenges.len();
        o.label(format!("challenge-rounds={}", ch.min(4)));
        if !st.engine.obsolete_info() {
            o.label(match &st.info.edf { None => "edf=absent".to_string(), Some(e) => format!("edf={:02x}", e.mask()) });
        } else {
            o.label(if st.info.mod_block.is_some() { "obsolete+mod" } else { "obsolete" });
        }
        o.label(match st.players.len() { 0 => "players=0", 1..=32 => "players=1-32", _ => "players=33-255" });
        o.label(match st.rules.len() { 0 => "rules=0", 1..=59 => "rules=1-59", 60..=400 => "rules=60-400", _ => "rules>400" });
        let any_split = [&st.t_info, &st.t_players, &st.t_rules].iter().any(|s| s.framing != Framing::Single);
        o.nontrivial = ch > 0 || any_split || !st.players.is_empty() || !st.rules.is_empty() || st.info.edf.as_ref().map(|e| e.mask() != 0).unwrap_or(false);

        let Some(server) = ValveServer::from_state(st) else {
            o.labels.push("bz2-unavailable-skipped".into());
            o.excluded = Some("compressed class skipped: python3 bz2 co-process unavailable".into());
            o.nontrivial = false;
            return o;
        };
        match case.wrapper {
            None => {
                let gather = GatheringSettings { players: GatherToggle::Enforce, rules: GatherToggle::Enforce, check_app_id: false };
                let addr = SocketAddr::new(doc_ip(), 27015);
                let engine = st.engine.engine();
                let run = run_scripted(Box::new(server), || valve::query(&addr, engine, Some(gather), None));
                o.failure = expect_equal("C02", "valve::query", &run, &st.expected_response(&gather), &[".rules"]);
                // The Ship: the per-game response derived from the same exchange
                if o.failure.is_none() && st.engine.is_ship() {
                    // (the module checks the app id)
                    let mut ship = st.clone();
                    set_appid(&mut ship, 2400);
                    fit(&mut ship);
                    if let Some(server) = ValveServer::from_state(&ship) {
                        let ip = doc_ip();
                        let run = run_scripted(Box::new(server), || gamedig::games::theship::query(&ip, Some(27015)));
                        o.label("wrapper=theship");
                        o.failure = expect_equal("C02", "games::theship::query", &run, &crate::props::c07::expected_theship(&ship), &[".rules"]);
                    }
                }
                // transport fidelity: a sample of cases is replayed over real loopback sockets with the same server
                if o.failure.is_none() && crate::runner::digest(st.info.name.as_bytes()) % 64 == 0 && st.rules.len() < 200 {
                    let st2 = st.clone();
                    let lo: IpAddr = std::net::Ipv4Addr::LOCALHOST.into();
                    // (datagrams can be dropped on a loaded machine when a burst exceeds the receive buffer: a differing outcome is retried with a fresh server)
                    let mut last = String::new();
                    let mut same = false;
                    for _attempt in 0 .. 3 {
                        let st3 = st2.clone();
                        let Some(real) = crate::realnet::RealServer::start(gamedig::verif_hook::Proto::Udp, lo, Box::new(move || Box::new(ValveServer::from_state(&st3).expect("compressor was available")))) else {
                            same = true;
                            break;
                        };
                        let raddr = real.addr;
                        let t = gamedig::protocols::types::TimeoutSettings::new(Some(std::time::Duration::from_secs(3)), Some(std::time::Duration::from_secs(3)), None, 0).ok();
                        let r2 = crate::wire::run_plain(|| valve::query(&raddr, engine, Some(gather), t));
                        match (&run.ended, &r2.ended) {
                            (crate::wire::Ended::Ok(a), crate::wire::Ended::Ok(b)) if a == b => {
                                FIDELITY.fetch_add(1, std::sync::atomic::Ordering::Relaxed);
                                same = true;
                            }
                            (_, crate::wire::Ended::Err(gamedig::GDErrorKind::PacketReceive)) => same = true,
                            (a, b) => last = format!("scripted wire gives {} but real loopback sockets give {}", a.kind_str(), b.kind_str()),
                        }
                        if same {
                            break;
                        }
                        FIDELITY_RETRIES.fetch_add(1, std::sync::atomic::Ordering::Relaxed);
                    }
                    if !same {
                        o.fail(format!("C02|real sockets|valve::query|differs from the scripted transport|{}", last.rsplit(' ').next().unwrap_or("")), serde_json::json!({"difference": last}));
                    }
                }
            }
            Some(i) => {
                let w = &wrappers()[i];
                o.label(format!("wrapper={}", w.id));
                let ip = doc_ip();
                let f = w.f;
                let run = run_scripted(Box::new(server), || f(&ip, None));
                o.failure = expect_equal("C02", &format!("games::{}::query", w.id), &run, &expected_game_response(st, &w.gather), &[".rules"]);
                if o.failure.is_none() {
                    // default port as documented
                    if let Some((_, peer)) = run.opens().first() {
                        if peer.port() != w.port {
                            o.fail(format!("C02|games::{}::query|port|default port", w.id), serde_json::json!({"got": peer.port(), "want": w.port}));
                        }
                    }
                }
            }
        }
        let _ = Kind::Info;
        o
    }
}
