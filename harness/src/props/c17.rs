//! C17 — packet reader and wire codecs vs a reference model.

use byteorder::{BigEndian, ByteOrder, LittleEndian};
use gamedig::protocols::unreal2::Unreal2StringDecoder;
use gamedig::verif_hook::minecraft_codec::{as_string, as_varint, get_string, get_varint};
use gamedig::verif_hook::{error_by_expected_size, u8_lower_upper, Buffer, Utf16Decoder, Utf8Decoder, Utf8LengthPrefixedDecoder};
use gamedig::GDErrorKind;
use proptest::prelude::*;
use serde::{Deserialize, Serialize};
use serde_json::json;
use std::hash::{Hash, Hasher};

use crate::panics;
use crate::runner::{Outcome, Prop, Tier};
use crate::wire::hex;

#[derive(Debug, Clone, Copy, Serialize, Deserialize, PartialEq, Eq, Hash)]
pub enum Num {
    U8,
    I8,
    U16,
    I16,
    U32,
    I32,
    U64,
    I64,
    F32,
    F64,
}

const NUMS: [Num; 10] = [
    Num::U8,
    Num::I8,
    Num::U16,
    Num::I16,
    Num::U32,
    Num::I32,
    Num::U64,
    Num::I64,
    Num::F32,
    Num::F64,
];

impl Num {
    fn width(self) -> usize {
        match self {
            Num::U8 | Num::I8 => 1,
            Num::U16 | Num::I16 => 2,
            Num::U32 | Num::I32 | Num::F32 => 4,
            _ => 8,
        }
    }
}

#[derive(Debug, Clone, Copy, Serialize, Deserialize, PartialEq, Eq, Hash)]
pub enum Dec {
    Utf8,
    Utf8Nl,
    LenPrefixed,
    LenPrefixedNl,
    Utf16Le,
    Utf16Be,
    Unreal2,
}

const DECS: [Dec; 7] = [
    Dec::Utf8,
    Dec::Utf8Nl,
    Dec::LenPrefixed,
    Dec::LenPrefixedNl,
    Dec::Utf16Le,
    Dec::Utf16Be,
    Dec::Unreal2,
];

#[derive(Debug, Clone, Copy, Serialize, Deserialize, PartialEq, Eq, Hash)]
pub enum Op {
    Read(Num),
    Move(i16),
    Str(Dec),
    Switch(u8),
    Remaining,
    RemainingBytes,
    Position,
}

#[derive(Debug, Clone, Serialize, Deserialize)]
pub enum Case {
    /// packet (hex), big-endian?, operation sequence
    Ops { packet: String, be: bool, ops: Vec<Op> },
    /// round trip of `count` consecutive integers starting at `start`
    VarintBlock { start: u32, count: u32 },
    /// decode these bytes (hex)
    VarintDecode { bytes: String },
    StringRoundtrip { s: String },
    /// u8_lower_upper over all bytes, error_by_expected_size on boundaries
    Utils,
}

fn small_ops() -> Vec<Op> {
    let mut v = Vec::new();
    for n in NUMS {
        v.push(Op::Read(n));
    }
    for m in -2i16 ..= 3 {
        v.push(Op::Move(m));
    }
    for d in DECS {
        v.push(Op::Str(d));
    }
    for s in 0u8 ..= 3 {
        v.push(Op::Switch(s));
    }
    v.push(Op::Remaining);
    v.push(Op::RemainingBytes);
    v.push(Op::Position);
    v
}

const ALPHABET: [u8; 6] = [0x00, 0x01, 0x41, 0x80, 0xC3, 0xFF];

// ---------------------------------------------------------------------------------
// reference model

struct Model<'a> {
    data: &'a [u8],
    pos: usize,
    be: bool,
}

#[derive(Debug, PartialEq, Clone)]
enum Val {
    U(u64),
    I(i64),
    F32(u32),
    F64(u64),
}

/// What the model says about a string read.
enum StrModel {
    /// must succeed with this value and one of these new positions
    Ok(String, Vec<usize>),
    /// malformed: implementation may fail or not, but stays in bounds
    Unspecified,
}

impl<'a> Model<'a> {
    fn read(&mut self, n: Num) -> Option<Val> {
        let w = n.width();
        if self.pos + w > self.data.len() {
            return None;
        }
        let b = &self.data[self.pos .. self.pos + w];
        let mut raw: u64 = 0;
        if self.be {
            for x in b {
                raw = (raw << 8) | *x as u64;
            }
        } else {
            for x in b.iter().rev() {
                raw = (raw << 8) | *x as u64;
            }
        }
        self.pos += w;
        Some(match n {
            Num::U8 | Num::U16 | Num::U32 | Num::U64 => Val::U(raw),
            Num::I8 => Val::I(raw as u8 as i8 as i64),
            Num::I16 => Val::I(raw as u16 as i16 as i64),
            Num::I32 => Val::I(raw as u32 as i32 as i64),
            Num::I64 => Val::I(raw as i64),
            Num::F32 => Val::F32(raw as u32),
            Num::F64 => Val::F64(raw),
        })
    }

    fn mv(&mut self, off: i64) -> bool {
        let new = self.pos as i64 + off;
        if new < 0 || new as usize > self.data.len() {
            return false;
        }
        self.pos = new as usize;
        true
    }

    fn string(&self, d: Dec) -> StrModel {
        let rest = &self.data[self.pos ..];
        match d {
            Dec::Utf8 | Dec::Utf8Nl => {
                let delim = if d == Dec::Utf8 { 0u8 } else { 0x0A };
                let (body, consumed) = match rest.iter().position(|b| *b == delim) {
                    Some(p) => (&rest[.. p], p + 1),
                    None => (rest, rest.len()),
                };
                match std::str::from_utf8(body) {
                    Ok(s) => StrModel::Ok(s.to_string(), vec![self.pos + consumed]),
                    Err(_) => StrModel::Unspecified,
                }
            }
            Dec::LenPrefixed | Dec::LenPrefixedNl => {
                let delim = if d == Dec::LenPrefixed { 0u8 } else { 0x0A };
                let Some(&l) = rest.first() else { return StrModel::Unspecified };
                let l = l as usize;
                if 1 + l > rest.len() {
                    // declared length runs past the packet
                    return StrModel::Unspecified;
                }
                let body = &rest[1 .. 1 + l];
                match body.iter().position(|b| *b == delim) {
                    None => {
                        match std::str::from_utf8(body) {
                            Ok(s) => StrModel::Ok(s.to_string(), vec![self.pos + 1 + l]),
                            Err(_) => StrModel::Unspecified,
                        }
                    }
                    Some(p) => {
                        // embedded delimiter: the value is cut there; how much is consumed is not specified
                        match std::str::from_utf8(&body[.. p]) {
                            Ok(s) => StrModel::Ok(s.to_string(), vec![self.pos + 1 + p, self.pos + 2 + p, self.pos + 1 + l]),
                            Err(_) => StrModel::Unspecified,
                        }
                    }
                }
            }
            Dec::Utf16Le | Dec::Utf16Be => {
                let units: Vec<u16> = rest
                    .chunks_exact(2)
                    .map(|c| {
                        if d == Dec::Utf16Be {
                            u16::from_be_bytes([c[0], c[1]])
                        } else {
                            u16::from_le_bytes([c[0], c[1]])
                        }
                    })
                    .collect();
                match units.iter().position(|u| *u == 0) {
                    Some(k) => {
                        match String::from_utf16(&units[.. k]) {
                            Ok(s) => StrModel::Ok(s, vec![self.pos + 2 * k + 2]),
                            Err(_) => StrModel::Unspecified,
                        }
                    }
                    None => {
                        if rest.len() % 2 == 1 {
                            // dangling half unit: malformed
                            return StrModel::Unspecified;
                        }
                        match String::from_utf16(&units) {
                            Ok(s) => StrModel::Ok(s, vec![self.data.len()]),
                            Err(_) => StrModel::Unspecified,
                        }
                    }
                }
            }
            // semantic decoding of Unreal 2 strings is C06; here only totality and bounds
            Dec::Unreal2 => StrModel::Unspecified,
        }
    }
}

// ---------------------------------------------------------------------------------
// implementation side

fn impl_read<B: ByteOrder>(buf: &mut Buffer<B>, n: Num) -> Result<Val, GDErrorKind> {
    Ok(match n {
        Num::U8 => Val::U(buf.read::<u8>().map_err(|e| e.kind)? as u64),
        Num::I8 => Val::I(buf.read::<i8>().map_err(|e| e.kind)? as i64),
        Num::U16 => Val::U(buf.read::<u16>().map_err(|e| e.kind)? as u64),
        Num::I16 => Val::I(buf.read::<i16>().map_err(|e| e.kind)? as i64),
        Num::U32 => Val::U(buf.read::<u32>().map_err(|e| e.kind)? as u64),
        Num::I32 => Val::I(buf.read::<i32>().map_err(|e| e.kind)? as i64),
        Num::U64 => Val::U(buf.read::<u64>().map_err(|e| e.kind)?),
        Num::I64 => Val::I(buf.read::<i64>().map_err(|e| e.kind)?),
        Num::F32 => Val::F32(buf.read::<f32>().map_err(|e| e.kind)?.to_bits()),
        Num::F64 => Val::F64(buf.read::<f64>().map_err(|e| e.kind)?.to_bits()),
    })
}

fn impl_str<B: ByteOrder>(buf: &mut Buffer<B>, d: Dec) -> Result<String, GDErrorKind> {
    match d {
        Dec::Utf8 => buf.read_string::<Utf8Decoder>(None),
        Dec::Utf8Nl => buf.read_string::<Utf8Decoder>(Some([0x0A])),
        Dec::LenPrefixed => buf.read_string::<Utf8LengthPrefixedDecoder>(None),
        Dec::LenPrefixedNl => buf.read_string::<Utf8LengthPrefixedDecoder>(Some([0x0A])),
        Dec::Utf16Le => buf.read_string::<Utf16Decoder<LittleEndian>>(None),
        Dec::Utf16Be => buf.read_string::<Utf16Decoder<BigEndian>>(None),
        Dec::Unreal2 => buf.read_string::<Unreal2StringDecoder>(None),
    }
    .map_err(|e| e.kind)
}

/// Returns Err(signature-suffix, detail) at the first divergence.
fn run_ops<B: ByteOrder + gamedig::verif_hook::SwitchEndian>(
    data: &[u8],
    be: bool,
    ops: &[Op],
) -> Result<(bool, bool), (String, serde_json::Value)> {
    let mut buf = Buffer::<B>::new(data);
    let mut m = Model { data, pos: 0, be };
    let mut saw_failed_op = false;
    let mut saw_unterminated = false;
    for (i, op) in ops.iter().enumerate() {
        let before = m.pos;
        let step = |what: &str, extra: serde_json::Value| {
            (
                what.to_string(),
                json!({"step": i, "op": format!("{op:?}"), "position_before": before, "packet_len": data.len(), "info": extra}),
            )
        };
        match *op {
            Op::Read(n) => {
                let r = impl_read(&mut buf, n);
                let e = m.read(n);
                match (r, e) {
                    (Ok(v), Some(ev)) => {
                        if v != ev {
                            return Err(step(&format!("read {n:?}|wrong value"), json!({"got": format!("{v:?}"), "want": format!("{ev:?}")})));
                        }
                    }
                    (Err(_), None) => saw_failed_op = true,
                    (Ok(v), None) => {
                        return Err(step(&format!("read {n:?}|succeeded past the end"), json!({"got": format!("{v:?}")})));
                    }
                    (Err(k), Some(_)) => {
                        return Err(step(&format!("read {n:?}|failed inside the packet"), json!({"error": format!("{k:?}")})));
                    }
                }
            }
            Op::Move(off) => {
                let r = buf.move_cursor(off as isize);
                let e = m.mv(off as i64);
                if r.is_ok() != e {
                    return Err(step("move_cursor|wrong accept/reject", json!({"impl_ok": r.is_ok(), "model_ok": e})));
                }
                if !e {
                    saw_failed_op = true;
                }
            }
            Op::Str(d) => {
                // a string read with the cursor already out of bounds is caught by the position check below
                let sm = m.string(d);
                let r = impl_str(&mut buf, d);
                let pos_after = buf.current_position();
                match sm {
                    StrModel::Ok(s, positions) => {
                        if !positions.contains(&(data.len())) || positions.len() > 1 {
                            // fine
                        }
                        match r {
                            Ok(got) => {
                                if got != s {
                                    return Err(step(&format!("read_string {d:?}|wrong value"), json!({"got": got, "want": s})));
                                }
                                if !positions.contains(&pos_after) {
                                    return Err(step(
                                        &format!("read_string {d:?}|wrong position"),
                                        json!({"position_after": pos_after, "allowed": positions}),
                                    ));
                                }
                                if positions[0] == data.len() && !matches!(d, Dec::LenPrefixed | Dec::LenPrefixedNl) {
                                    saw_unterminated = true;
                                }
                                m.pos = pos_after;
                            }
                            Err(k) => {
                                return Err(step(
                                    &format!("read_string {d:?}|failed on a well-formed string"),
                                    json!({"error": format!("{k:?}"), "want": s}),
                                ));
                            }
                        }
                    }
                    StrModel::Unspecified => {
                        saw_failed_op = true;
                        if pos_after > data.len() {
                            return Err(step(
                                &format!("read_string {d:?}|position out of bounds"),
                                json!({"position_after": pos_after, "impl_ok": r.is_ok()}),
                            ));
                        }
                        if r.is_err() {
                            // nothing else is required; keep the implementation's position
                        }
                        m.pos = pos_after;
                    }
                }
            }
            Op::Switch(sz) => {
                let sz = sz as usize;
                let r = buf.switch_endian_chunk(sz);
                let ok = m.pos + sz <= data.len();
                match r {
                    Ok(chunk) => {
                        if !ok {
                            return Err(step("switch_endian_chunk|succeeded past the end", json!({"size": sz})));
                        }
                        let want = &data[m.pos .. m.pos + sz];
                        if chunk.remaining_bytes() != want || chunk.data_length() != sz || chunk.current_position() != 0 {
                            return Err(step(
                                "switch_endian_chunk|wrong chunk",
                                json!({"got": hex(chunk.remaining_bytes()), "want": hex(want)}),
                            ));
                        }
                        // the chunk must read in the opposite byte order
                        if sz >= 2 {
                            let mut c = chunk;
                            let got = c.read::<u16>().map_err(|e| e.kind);
                            let w = if be {
                                u16::from_le_bytes([want[0], want[1]])
                            } else {
                                u16::from_be_bytes([want[0], want[1]])
                            };
                            if got != Ok(w) {
                                return Err(step(
                                    "switch_endian_chunk|chunk not in the opposite byte order",
                                    json!({"got": format!("{got:?}"), "want": w}),
                                ));
                            }
                        }
                        m.pos += sz;
                    }
                    Err(_) => {
                        if ok {
                            return Err(step("switch_endian_chunk|failed inside the packet", json!({"size": sz})));
                        }
                        saw_failed_op = true;
                    }
                }
            }
            Op::Remaining => {
                let got = buf.remaining_length();
                if got != data.len() - m.pos {
                    return Err(step("remaining_length|wrong value", json!({"got": got, "want": data.len() - m.pos})));
                }
            }
            Op::RemainingBytes => {
                let got = buf.remaining_bytes();
                if got != &data[m.pos ..] {
                    return Err(step("remaining_bytes|wrong value", json!({"got": hex(got), "want": hex(&data[m.pos ..])})));
                }
            }
            Op::Position => {}
        }
        // invariant after every operation
        let p = buf.current_position();
        if p > data.len() {
            return Err(step(&format!("{}|position out of bounds", opname(op)), json!({"position_after": p})));
        }
        if p != m.pos {
            let failed_unchanged = p == before;
            return Err(step(
                &format!("{}|wrong position", opname(op)),
                json!({"position_after": p, "model_position": m.pos, "unchanged": failed_unchanged}),
            ));
        }
        if buf.remaining_length() != data.len() - p || buf.data_length() != data.len() {
            return Err(step(&format!("{}|remaining_length inconsistent", opname(op)), json!({"position_after": p})));
        }
    }
    Ok((saw_failed_op, saw_unterminated))
}

fn opname(op: &Op) -> String {
    match op {
        Op::Read(n) => format!("read {n:?}"),
        Op::Move(_) => "move_cursor".into(),
        Op::Str(d) => format!("read_string {d:?}"),
        Op::Switch(_) => "switch_endian_chunk".into(),
        Op::Remaining => "remaining_length".into(),
        Op::RemainingBytes => "remaining_bytes".into(),
        Op::Position => "current_position".into(),
    }
}

fn ref_varint_encode(v: i32) -> Vec<u8> {
    let mut x = v as u32;
    let mut out = Vec::new();
    loop {
        let b = (x & 0x7F) as u8;
        x >>= 7;
        if x == 0 {
            out.push(b);
            return out;
        }
        out.push(b | 0x80);
    }
}

/// Reference decode: Ok(value, consumed) or Err.
fn ref_varint_decode(bytes: &[u8]) -> Result<(i32, usize), ()> {
    let mut r: u32 = 0;
    for i in 0 .. 5 {
        let b = *bytes.get(i).ok_or(())?;
        r |= ((b & 0x7F) as u32) << (7 * i);
        if i == 4 && b & 0xF0 != 0 {
            return Err(());
        }
        if b & 0x80 == 0 {
            return Ok((r as i32, i + 1));
        }
    }
    Err(())
}

/// Byte form of a case for the coverage-guided target `reader` (total decoder).
/// byte 0: kind (0-5 operation sequence, 6 VarInt decode, 7 string round trip) and endianness (bit 3);
/// byte 1: number of operations n (mod 24); n operation bytes; the rest is the packet / the bytes / the string.
pub fn decode_case(data: &[u8]) -> Case {
    let h = |i: usize| data.get(i).copied().unwrap_or(0);
    match h(0) & 7 {
        6 => Case::VarintDecode { bytes: crate::wire::hex(data.get(1 ..).unwrap_or(&[])) },
        7 => Case::StringRoundtrip { s: String::from_utf8_lossy(data.get(1 ..).unwrap_or(&[])).chars().take(4000).collect() },
        _ => {
            let n = (h(1) % 24) as usize;
            let mut ops = Vec::new();
            for i in 0 .. n {
                let b = h(2 + i);
                ops.push(match b % 32 {
                    x @ 0 ..= 9 => Op::Read(NUMS[x as usize]),
                    x @ 10 ..= 16 => Op::Str(DECS[(x - 10) as usize]),
                    17 ..= 20 => Op::Move(((b / 32) as i16) - 3),
                    21 => Op::Move(b as i16),
                    22 => Op::Move(-(b as i16)),
                    23 => Op::Move(i16::MAX),
                    24 => Op::Move(i16::MIN),
                    25 | 26 => Op::Switch(b / 32),
                    27 | 28 => Op::Remaining,
                    29 | 30 => Op::RemainingBytes,
                    _ => Op::Position,
                });
            }
            Case::Ops { packet: crate::wire::hex(data.get(2 + n ..).unwrap_or(&[])), be: h(0) & 8 != 0, ops }
        }
    }
}

/// One fuzz iteration: the signature and detail of a failure, or None.
pub fn fuzz_one(data: &[u8]) -> Option<(String, serde_json::Value, Case)> {
    let case = decode_case(data);
    C17.run(&case).failure.map(|f| (f.signature, f.detail, case))
}

pub struct C17;

fn op_strategy() -> impl Strategy<Value = Op> {
    prop_oneof![
        6 => prop::sample::select(NUMS.to_vec()).prop_map(Op::Read),
        3 => (-12i16..40).prop_map(Op::Move),
        1 => prop_oneof![Just(i16::MIN), Just(i16::MAX), Just(-300), Just(300)].prop_map(Op::Move),
        6 => prop::sample::select(DECS.to_vec()).prop_map(Op::Str),
        2 => (0u8..40).prop_map(Op::Switch),
        1 => Just(Op::Remaining),
        1 => Just(Op::RemainingBytes),
    ]
}

fn packet_strategy() -> impl Strategy<Value = Vec<u8>> {
    let byte = prop_oneof![
        4 => any::<u8>(),
        3 => prop::sample::select(vec![0u8, 0, 0, 1, 2, 3, 0x0A, 0x1B, 0x41, 0x7F, 0x80, 0x81, 0xC3, 0xD8, 0xDC, 0xFE, 0xFF]),
        3 => 0x20u8..0x7F,
    ];
    prop_oneof![
        3 => prop::collection::vec(byte.clone(), 0..12),
        3 => prop::collection::vec(byte.clone(), 12..64),
        1 => prop::collection::vec(byte, 64..300),
    ]
}

impl C17 {
    fn run_case(&self, case: &Case, o: &mut Outcome) {
        match case {
            Case::Ops { packet, be, ops } => {
                let data = crate::wire::unhex(packet);
                o.label(if *be { "ops-be" } else { "ops-le" });
                let r = panics::catch(|| {
                    if *be {
                        run_ops::<BigEndian>(&data, true, ops)
                    } else {
                        run_ops::<LittleEndian>(&data, false, ops)
                    }
                });
                match r {
                    Ok(Ok((failed, unterminated))) => {
                        o.nontrivial = failed || unterminated;
                        if failed {
                            o.label("has-failing-op");
                        }
                        if unterminated {
                            o.label("unterminated-string");
                        }
                    }
                    Ok(Err((what, detail))) => {
                        o.nontrivial = true;
                        o.fail(format!("C17|Buffer|{what}"), json!({"packet": packet, "be": be, "ops": format!("{ops:?}"), "at": detail}));
                    }
                    Err(p) => {
                        o.nontrivial = true;
                        o.fail(
                            format!("C17|Buffer|panic|{}|{}", p.site(), p.class()),
                            json!({"packet": packet, "be": be, "ops": format!("{ops:?}"), "panic": p}),
                        );
                    }
                }
            }
            Case::VarintBlock { start, count } => {
                o.label("varint-roundtrip-block");
                o.nontrivial = true;
                let r = panics::catch(|| {
                    let mut x = *start;
                    for _ in 0 .. *count {
                        let v = x as i32;
                        let enc = as_varint(v);
                        if enc != ref_varint_encode(v) {
                            return Err((v, "as_varint differs from the reference encoding", hex(&enc)));
                        }
                        let mut b = Buffer::<LittleEndian>::new(&enc);
                        match get_varint(&mut b) {
                            Ok(d) if d == v && b.remaining_length() == 0 => {}
                            other => return Err((v, "get_varint(as_varint(x)) != x", format!("{other:?}"))),
                        }
                        x = x.wrapping_add(1);
                    }
                    Ok(())
                });
                match r {
                    Ok(Ok(())) => {}
                    Ok(Err((v, what, info))) => {
                        o.fail(format!("C17|varint|roundtrip|{what}"), json!({"value": v, "info": info}));
                    }
                    Err(p) => {
                        o.fail(format!("C17|varint|panic|{}|{}", p.site(), p.class()), json!({"start": start, "panic": p}));
                    }
                }
            }
            Case::VarintDecode { bytes } => {
                let data = crate::wire::unhex(bytes);
                let want = ref_varint_decode(&data);
                o.label(if want.is_ok() { "varint-decode-valid" } else { "varint-decode-invalid" });
                o.nontrivial = want.is_err() || data.len() > 1;
                let r = panics::catch(|| {
                    let mut b = Buffer::<BigEndian>::new(&data);
                    let got = get_varint(&mut b).map_err(|e| e.kind);
                    (got, b.current_position())
                });
                match r {
                    Ok((got, pos)) => {
                        match (got, want) {
                            (Ok(v), Ok((wv, used))) => {
                                if v != wv || pos != used {
                                    o.fail(
                                        "C17|varint|decode|wrong value or length",
                                        json!({"bytes": bytes, "got": v, "want": wv, "consumed": pos, "want_consumed": used}),
                                    );
                                }
                            }
                            (Err(_), Err(())) => {
                                if pos > data.len() {
                                    o.fail("C17|varint|decode|position out of bounds", json!({"bytes": bytes}));
                                }
                            }
                            (Ok(v), Err(())) => {
                                o.fail("C17|varint|decode|over-long or truncated encoding accepted", json!({"bytes": bytes, "got": v}));
                            }
                            (Err(k), Ok((wv, _))) => {
                                o.fail("C17|varint|decode|valid encoding rejected", json!({"bytes": bytes, "error": format!("{k:?}"), "want": wv}));
                            }
                        }
                    }
                    Err(p) => {
                        o.fail(format!("C17|varint|panic|{}|{}", p.site(), p.class()), json!({"bytes": bytes, "panic": p}));
                    }
                }
            }
            Case::StringRoundtrip { s } => {
                o.label("mc-string-roundtrip");
                o.nontrivial = !s.is_ascii() || s.len() > 127;
                let r = panics::catch(|| {
                    let enc = as_string(s).map_err(|e| format!("as_string failed: {:?}", e.kind))?;
                    let mut want = ref_varint_encode(s.len() as i32);
                    want.extend_from_slice(s.as_bytes());
                    if enc != want {
                        return Err("as_string layout differs from VarInt length + UTF-8 bytes".to_string());
                    }
                    let mut tail = enc.clone();
                    tail.extend_from_slice(&[0x7F, 0x00]);
                    let mut b = Buffer::<LittleEndian>::new(&tail);
                    match get_string(&mut b) {
                        Ok(d) if &d == s && b.remaining_length() == 2 => Ok(()),
                        other => Err(format!("get_string(as_string(s)) != s: {other:?}")),
                    }
                });
                match r {
                    Ok(Ok(())) => {}
                    Ok(Err(what)) => {
                        o.fail("C17|mcstring|roundtrip", json!({"s": s, "what": what}));
                    }
                    Err(p) => {
                        o.fail(format!("C17|mcstring|panic|{}|{}", p.site(), p.class()), json!({"s": s, "panic": p}));
                    }
                }
            }
            Case::Utils => {
                o.label("utils");
                o.nontrivial = true;
                for n in 0u16 ..= 255 {
                    let n = n as u8;
                    if u8_lower_upper(n) != (n & 0x0F, n >> 4) {
                        o.fail("C17|u8_lower_upper|wrong nibbles", json!({"n": n, "got": format!("{:?}", u8_lower_upper(n))}));
                    }
                }
                let pts = [0usize, 1, 2, 3, 68, 69, 70, 255, 256, 65535, 65536, usize::MAX - 1, usize::MAX];
                for &e in &pts {
                    for &s in &pts {
                        let got = error_by_expected_size(e, s).map_err(|x| x.kind);
                        let want = if s > e {
                            Err(GDErrorKind::PacketOverflow)
                        } else if s < e {
                            Err(GDErrorKind::PacketUnderflow)
                        } else {
                            Ok(())
                        };
                        if got != want {
                            o.fail(
                                "C17|error_by_expected_size|wrong verdict",
                                json!({"expected": e, "size": s, "got": format!("{got:?}")}),
                            );
                        }
                    }
                }
            }
        }
    }
}

impl Prop for C17 {
    type Case = Case;

    fn id(&self) -> &'static str { "C17" }

    fn rule(&self) -> String {
        "(a) exhaustive small scope: all packets up to N bytes over {00,01,41,80,C3,FF} x all operation sequences up to depth D over 30 operations \
         (10 fixed-width reads, move_cursor -2..3, read_string with 7 decoder/delimiter variants, switch_endian_chunk 0..3, remaining_length, \
         remaining_bytes, current_position) x LE/BE (quick N=3,D=3; thorough N=4,D=4 with first-divergence pruning); (b) random packets up to 300 \
         bytes x sequences up to 30 ops; (c) VarInt round trip over blocks of consecutive integers (thorough: all 2^32) and boundary values, VarInt \
         decoding of all 1-6 byte strings over continuation-bit classes x boundary payloads, Minecraft string round trip, utils. Every step is \
         compared with a reference reader (index into a Vec<u8>). non-trivial = the sequence contains a failing operation or an unterminated / \
         malformed string read (for codec cases: multi-byte or rejected encodings); distinct = hash of the case"
            .into()
    }

    fn assumptions(&self) -> Vec<String> {
        vec![
            "a string read whose bytes are not valid in the decoder's encoding, a length-prefixed read whose length byte runs past the packet, and a UTF-16 read that ends in half a code unit are 'malformed': the check requires only no panic and an in-bounds position for them".into(),
            "length-prefixed strings that contain the delimiter inside the declared length: the value is cut at the delimiter; any of the three plausible positions is accepted".into(),
            "'over-long' VarInt = a 5th byte with bits above 0x0F or a continuation bit on the 5th byte; zero-padded encodings such as 80 00 are accepted, as in the vanilla protocol".into(),
            "Unreal 2 string decoding is checked here only for totality and bounds; its value is C06".into(),
        ]
    }

    fn random_cases(&self, tier: Tier) -> u64 { tier.pick(400_000, 8_000_000) }

    fn strategy(&self, _tier: Tier) -> BoxedStrategy<Case> {
        prop_oneof![
            16 => (packet_strategy(), any::<bool>(), prop::collection::vec(op_strategy(), 1..30))
                .prop_map(|(p, be, ops)| Case::Ops { packet: hex(&p), be, ops }),
            2 => (any::<u32>(), 1u32..64).prop_map(|(start, count)| Case::VarintBlock { start, count }),
            2 => prop::collection::vec(any::<u8>(), 0..8).prop_map(|b| Case::VarintDecode { bytes: hex(&b) }),
            1 => crate::util::text(&[], 400).prop_map(|s| Case::StringRoundtrip { s }),
        ]
        .boxed()
    }

    fn enumerated<'a>(&'a self, tier: Tier, shard: usize, nshards: usize) -> Box<dyn Iterator<Item = Case> + 'a> {
        let (maxlen, depth) = tier.pick((3usize, 3usize), (4, 4));
        let ops = small_ops();
        let nops = ops.len();
        // packets
        let mut packets: Vec<Vec<u8>> = vec![vec![]];
        let mut frontier: Vec<Vec<u8>> = vec![vec![]];
        for _ in 0 .. maxlen {
            let mut next = Vec::new();
            for p in &frontier {
                for a in ALPHABET {
                    let mut q = p.clone();
                    q.push(a);
                    next.push(q);
                }
            }
            packets.extend(next.iter().cloned());
            frontier = next;
        }
        // op sequences of length 1..=depth as mixed-radix numbers
        let mut total_seq = 0usize;
        let mut pow = 1usize;
        for _ in 0 .. depth {
            pow *= nops;
            total_seq += pow;
        }
        let seqs = (0 .. total_seq).map(move |mut k| {
            // decode k into (len, digits)
            let mut len = 1;
            let mut block = nops;
            while k >= block {
                k -= block;
                block *= nops;
                len += 1;
            }
            let mut v = Vec::with_capacity(len);
            for _ in 0 .. len {
                v.push(k % nops);
                k /= nops;
            }
            v
        });
        let ops2 = ops.clone();
        let small = packets
            .into_iter()
            .enumerate()
            .filter(move |(i, _)| i % nshards == shard)
            .flat_map(move |(_, p)| {
                let ops = ops2.clone();
                let ph = hex(&p);
                seqs.clone().flat_map(move |digits| {
                    let seq: Vec<Op> = digits.iter().map(|d| ops[*d]).collect();
                    let ph = ph.clone();
                    [false, true].into_iter().map(move |be| {
                        Case::Ops {
                            packet: ph.clone(),
                            be,
                            ops: seq.clone(),
                        }
                    })
                })
            });
        // varint blocks
        let block: u32 = 1 << 16;
        let varints: Box<dyn Iterator<Item = Case>> = match tier {
            Tier::Thorough => {
                Box::new(
                    (0u32 .. 65536)
                        .filter(move |b| *b as usize % nshards == shard)
                        .map(move |b| Case::VarintBlock { start: b.wrapping_mul(block), count: block }),
                )
            }
            Tier::Quick => {
                // stratified: a block of 2^12 around every k*2^24 and around every power of two
                let mut starts: Vec<u32> = (0u32 .. 256).map(|k| k << 24).collect();
                for b in 0 .. 32 {
                    starts.push((1u32 << b).wrapping_sub(2048));
                }
                starts.push(u32::MAX - 4095);
                Box::new(
                    starts
                        .into_iter()
                        .enumerate()
                        .filter(move |(i, _)| i % nshards == shard)
                        .map(|(_, s)| Case::VarintBlock { start: s, count: 4096 }),
                )
            }
        };
        // varint decode classes: lengths 1..=6, each byte = continuation bit x payload class
        let payloads: [u8; 7] = [0x00, 0x01, 0x0F, 0x10, 0x3F, 0x40, 0x7F];
        let mut dec_cases = Vec::new();
        fn rec(cur: &mut Vec<u8>, len: usize, payloads: &[u8; 7], out: &mut Vec<Vec<u8>>, budget: &mut usize) {
            if cur.len() == len {
                out.push(cur.clone());
                return;
            }
            let last = cur.len() + 1 == len;
            for c in [0x80u8, 0x00] {
                // interior bytes without continuation end the number early: keep a few, not all
                for (pi, p) in payloads.iter().enumerate() {
                    if !last && c == 0 && pi > 1 {
                        continue;
                    }
                    if cur.len() < len.saturating_sub(3) && pi % 3 != 0 {
                        continue;
                    }
                    if *budget == 0 {
                        return;
                    }
                    *budget -= 1;
                    cur.push(c | p);
                    rec(cur, len, payloads, out, budget);
                    cur.pop();
                }
            }
        }
        let mut budget = 400_000usize;
        for len in 0 ..= 6 {
            rec(&mut Vec::new(), len, &payloads, &mut dec_cases, &mut budget);
        }
        let decs = dec_cases
            .into_iter()
            .enumerate()
            .filter(move |(i, _)| i % nshards == shard)
            .map(|(_, b)| Case::VarintDecode { bytes: hex(&b) });
        let singles: Vec<Case> = if shard == 0 {
            let mut v = vec![Case::Utils];
            for s in ["", "A", "VarString", "é", "\u{1F600}", &"x".repeat(127), &"y".repeat(128), &"z".repeat(16384), &"\u{FFFD}".repeat(6000)] {
                v.push(Case::StringRoundtrip { s: s.to_string() });
            }
            v
        } else {
            vec![]
        };
        Box::new(singles.into_iter().chain(varints).chain(decs).chain(small))
    }

    fn exhaustive_subspaces(&self, tier: Tier) -> Vec<String> {
        vec![
            format!(
                "all packets of <= {} bytes over {{00,01,41,80,C3,FF}} x all sequences of <= {} operations over the 30-operation alphabet x LE/BE",
                tier.pick(3, 4),
                tier.pick(3, 4)
            ),
            match tier {
                Tier::Thorough => "VarInt round trip over all 2^32 integers".into(),
                Tier::Quick => "VarInt round trip over 289 blocks of 4096 consecutive integers (every multiple of 2^24, every power of two, the top of the range)".into(),
            },
            "u8_lower_upper over all 256 bytes".into(),
        ]
    }

    fn case_digest(&self, case: &Case) -> u64 {
        let mut h = std::collections::hash_map::DefaultHasher::new();
        match case {
            Case::Ops { packet, be, ops } => {
                0u8.hash(&mut h);
                packet.hash(&mut h);
                be.hash(&mut h);
                ops.hash(&mut h);
            }
            Case::VarintBlock { start, count } => {
                1u8.hash(&mut h);
                start.hash(&mut h);
                count.hash(&mut h);
            }
            Case::VarintDecode { bytes } => {
                2u8.hash(&mut h);
                bytes.hash(&mut h);
            }
            Case::StringRoundtrip { s } => {
                3u8.hash(&mut h);
                s.hash(&mut h);
            }
            Case::Utils => 4u8.hash(&mut h),
        }
        h.finish()
    }

    fn run(&self, case: &Case) -> Outcome {
        let mut o = Outcome::new();
        self.run_case(case, &mut o);
        o
    }
}
