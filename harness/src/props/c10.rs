//! C10 — retries: at most r+1 attempts, only after timeouts, same result.

use gamedig::GDErrorKind;
use proptest::prelude::*;
use serde::{Deserialize, Serialize};
use serde_json::json;

use crate::entries::{Entry, Family};
use crate::models::family::{fam_state, FamState};
use crate::models::fault::{Fault, Faulty, FAULTS};
use crate::models::valve::EngineSel;
use crate::runner::{sample_one, Outcome, Prop, Tier};
use crate::util::{brief, doc_ip};
use crate::wire::{hex, render_log, run_scripted, Ended};

#[derive(Debug, Clone, Serialize, Deserialize)]
pub struct Case {
    pub entry: Entry,
    pub unit: u8,
    pub step: u8,
    pub retries: u8,
    pub plan: Vec<Fault>,
    pub st: FamState,
    /// how a malformed outcome is realised: 0 the fixed hand-written reply, 1..=4 the valid reply cut short (only where `mangle_applies`)
    #[serde(default)]
    pub mangle: u8,
}

/// (entry, units, steps per unit)
pub fn targets() -> Vec<(Entry, Vec<u8>, u8)> {
    vec![
        (Entry::Valve { engine: EngineSel::SourceNone, players: 2, rules: 2, check: false }, vec![0, 1, 2], 2),
        (Entry::Valve { engine: EngineSel::GoldSrc(false), players: 2, rules: 2, check: false }, vec![0, 1, 2], 1),
        (Entry::Ffow, vec![0], 2),
        (Entry::Gs1, vec![0], 1),
        (Entry::Gs1Vars, vec![0], 1),
        (Entry::Gs2, vec![0], 1),
        (Entry::Gs3, vec![0], 2),
        (Entry::Jc2m, vec![0], 2),
        (Entry::Quake(1), vec![0], 1),
        (Entry::Quake(2), vec![0], 1),
        (Entry::Quake(3), vec![0], 1),
        (Entry::Unreal2 { players: 2, rules: 2 }, vec![0, 1, 2], 1),
        (Entry::McJava, vec![0], 1),
        (Entry::McBedrock, vec![0], 1),
        (Entry::McLegacySpecific(0), vec![0], 1),
        (Entry::McLegacySpecific(1), vec![0], 1),
        (Entry::McLegacySpecific(2), vec![0], 1),
        (Entry::Mindustry, vec![0], 1),
        // the definition-driven dispatch of one table game per family (its first request): the retry count has to survive the glue
        (Entry::Generic { game: "mindustry".into(), extra: None }, vec![0], 1),
        (Entry::Generic { game: "q3a".into(), extra: None }, vec![0], 1),
        (Entry::Generic { game: "quake1".into(), extra: None }, vec![0], 1),
        (Entry::Generic { game: "battlefield1942".into(), extra: None }, vec![0], 1),
        (Entry::Generic { game: "hce".into(), extra: None }, vec![0], 1),
        (Entry::Generic { game: "crysiswars".into(), extra: None }, vec![0], 2),
        (Entry::Generic { game: "jc2m".into(), extra: None }, vec![0], 2),
        (Entry::Generic { game: "ffow".into(), extra: None }, vec![0], 2),
        (Entry::Generic { game: "killingfloor".into(), extra: None }, vec![0], 1),
        (Entry::Generic { game: "minecraftjava".into(), extra: None }, vec![0], 1),
        (Entry::Generic { game: "minecraftbedrock".into(), extra: None }, vec![0], 1),
        (Entry::Generic { game: "minecraftlegacy14".into(), extra: None }, vec![0], 1),
        // (Savage 2 ignores the retry count by design of its single exchange: "every protocol that retries" excludes it)
    ]
}

pub fn state_for_entry(entry: &Entry, idx: u64) -> FamState {
    let fam = entry.family();
    let mut st = sample_one(&fam_state(fam), "C10-state", idx);
    if let FamState::Valve(v) = &mut st {
        // make sure the challenge sub-step exists in every section
        for (i, s) in [&mut v.t_info, &mut v.t_players, &mut v.t_rules].into_iter().enumerate() {
            if s.challenges.is_empty() {
                s.challenges.push([0x10 + i as u8, 0x41, 0xFF, idx as u8]);
            }
        }
    }
    if let FamState::Ffow(f) = &mut st {
        if f.challenges.is_empty() {
            f.challenges.push([1, 2, 3, idx as u8]);
        }
    }
    if let FamState::Unreal2(u) = &mut st {
        // the players unit reads until it has num_players: keep it exact so that no extra timeout is needed
        u.num_players = u.players.len() as u32;
    }
    st
}

pub struct C10;

fn plans(len: usize) -> Vec<Vec<Fault>> {
    let mut out = vec![vec![]];
    for _ in 0 .. len {
        let mut next = Vec::new();
        for p in &out {
            for f in FAULTS {
                let mut q = p.clone();
                q.push(f);
                next.push(q);
            }
        }
        out = next;
    }
    out
}

impl Prop for C10 {
    fn level(&self) -> &'static str { "fault_enumeration" }

    type Case = Case;

    fn id(&self) -> &'static str { "C10" }

    fn rule(&self) -> String {
        "for every retrying request unit (valve info / players / rules incl. the challenge sub-step, FFOW, GameSpy 1 query and query_vars, GameSpy 2, GameSpy 3 and JC2-MP \
         handshake and data step, Quake 1/2/3, Unreal 2 info / rules / players, Minecraft Java, Bedrock and the three legacy variants, Mindustry) x retries r in 0..=3 x ALL \
         per-attempt outcome vectors in {valid, silent, send fails, malformed, partial (only the first datagram of a multi-datagram reply arrives)}^(r+2), over several server states: a fault-injecting wrapper around the valid reference \
         server applies the vector to the attempts of that unit. Oracle from the transport log and the wrapper's record: attempts == min(index of the first non-timeout \
         outcome + 1, r+1); every re-sent first request is byte-identical; first valid attempt => result equals the fault-free result; malformed (a fixed hand-written reply or, for the single-reply protocols without a challenge step, the valid reply cut to half / minus one byte / five bytes / one byte, or with its first / fifth / middle / last byte inverted; for every protocol also an empty datagram or stream) => an error that is not \
         receive/send class (or, for a cut reply, success) and no further attempt; all r+1 timeouts => PacketReceive / PacketSend. non-trivial = the vector contains a fault that took effect; distinct = \
         digest of the case"
            .into()
    }

    fn assumptions(&self) -> Vec<String> {
        vec![
            "Savage 2 and the master-server service do not retry at all (they are outside 'every protocol that retries')".into(),
            "gather toggles are Enforce so that a failed unit fails the query".into(),
            "r = usize::MAX belongs to C18".into(),
        ]
    }

    fn random_cases(&self, tier: Tier) -> u64 { tier.pick(20_000, 600_000) }

    fn strategy(&self, _tier: Tier) -> BoxedStrategy<Case> {
        let t = targets();
        (0 .. t.len(), any::<prop::sample::Index>(), any::<prop::sample::Index>(), 0u8 .. 4, prop::collection::vec(prop::sample::select(FAULTS.to_vec()), 0 .. 6), any::<u64>(), 0u8 .. 10)
            .prop_map(move |(ti, ui, si, retries, plan, idx, mangle)| {
                let (entry, units, steps) = &t[ti];
                Case {
                    entry: entry.clone(),
                    unit: units[ui.index(units.len())],
                    step: si.index(*steps as usize) as u8,
                    retries,
                    plan,
                    st: state_for_entry(entry, idx % 512),
                    mangle: if entry.family() == Family::Unreal2 { [0, 5, 10][mangle as usize % 3] } else if crate::models::fault::mangle_applies(entry.family()) || mangle == 5 { mangle } else { 0 },
                }
            })
            .boxed()
    }

    fn enumerated<'a>(&'a self, tier: Tier, shard: usize, nshards: usize) -> Box<dyn Iterator<Item = Case> + 'a> {
        let nstates = tier.pick(10u64, 30);
        let mut combos = Vec::new();
        for (entry, units, steps) in targets() {
            for u in &units {
                for s in 0 .. steps {
                    for r in 0u8 ..= 3 {
                        for k in 0 .. nstates {
                            combos.push((entry.clone(), *u, s, r, k));
                        }
                    }
                }
            }
        }
        let it = combos.into_iter().enumerate().filter(move |(i, _)| i % nshards == shard).flat_map(|(_, (entry, unit, step, retries, k))| {
            let st = state_for_entry(&entry, k);
            // the realisation of "malformed" rotates with the state index where cut replies apply (0 = the fixed reply)
            let mangle = if entry.family() == Family::Unreal2 { [0, 5, 10][(k % 3) as usize] } else if crate::models::fault::mangle_applies(entry.family()) { (k % 10) as u8 } else if k % 2 == 1 { 5 } else { 0 };
            plans(retries as usize + 2).into_iter().map(move |plan| {
                Case {
                    entry: entry.clone(),
                    unit,
                    step,
                    retries,
                    plan,
                    st: st.clone(),
                    mangle,
                }
            })
        });
        Box::new(it)
    }

    fn exhaustive_subspaces(&self, tier: Tier) -> Vec<String> {
        vec![format!("all outcome vectors {{valid, silent, send-fails, malformed, partial}}^(r+2) for r in 0..=3, for each of 18 entry points x their units x fault steps x {} server states (the realisation of 'malformed' rotates over the fixed reply and four cuts of the valid reply)", tier.pick(10, 30))]
    }

    fn run(&self, case: &Case) -> Outcome {
        let mut o = Outcome::new();
        let fam = case.entry.family();
        let ip = doc_ip();
        let r = case.retries as usize;
        o.label(format!("entry={}", case.entry.sig_name()));
        o.label(format!("retries={r}"));
        // fault-free result
        let base = run_scripted(case.st.responder(), || case.entry.call_json(&ip, 27015, r));
        let base_json = match &base.ended {
            Ended::Ok(v) => v.clone(),
            other => {
                o.fail(format!("C10|{}|fault-free query fails|{}", case.entry.sig_name(), other.kind_str()), json!({"wire": render_log(&base.log[.. base.log.len().min(20)])}));
                return o;
            }
        };
        let (mut faulty, flog) = Faulty::new(case.st.responder(), fam, case.unit, case.step, case.plan.clone());
        faulty.mangle = case.mangle;
        if case.mangle == 10 { o.label("malformed=last datagram of a list (Unreal 2)"); } else if case.mangle == 5 { o.label("malformed=empty reply"); } else if case.mangle >= 6 { o.label(format!("malformed=valid reply with a byte inverted ({})", case.mangle)); } else if case.mangle != 0 { o.label(format!("malformed=valid reply cut short ({})", case.mangle)); }
        let run = run_scripted(Box::new(faulty), || case.entry.call_json(&ip, 27015, r));
        let flog = flog.borrow().clone();
        if std::env::var("GDV_TRACE").is_ok() {
            eprintln!("C10 trace: result {} attempts {:?}\n{}", run.ended.kind_str(), flog.attempts, render_log(&run.log).join("\n"));
        }
        // effective outcome of every attempt that was made
        let eff: Vec<Fault> = flog.attempts.iter().map(|(f, hit)| if *hit { *f } else { Fault::Valid }).collect();
        o.nontrivial = eff.iter().any(|f| *f != Fault::Valid);
        if eff.iter().any(|f| *f == Fault::Malformed) { o.label("malformed-hit"); }
        if flog.partial_hits > 0 { o.label("partial-reply-hit"); }
        if flog.tail_hits > 0 { o.label("malformed-last-datagram-hit"); }
        if eff.iter().filter(|f| f.timeout_class()).count() > r { o.label("all-attempts-time-out"); }
        // planned effective vector: what each attempt WOULD see (attempts beyond those made are unknown; use the plan)
        let planned = |i: usize| -> Fault { eff.get(i).copied().unwrap_or_else(|| case.plan.get(i).copied().unwrap_or(Fault::Valid)) };
        let first_non_timeout = (0 ..= r).find(|i| !planned(*i).timeout_class());
        let want_attempts = match first_non_timeout {
            Some(i) => i + 1,
            None => r + 1,
        };
        let sig = |what: &str| format!("C10|{}|unit {}|{what}", case.entry.sig_name(), case.unit);
        let detail = |extra: serde_json::Value| {
            json!({"retries": r, "plan": format!("{:?}", case.plan), "effective": format!("{eff:?}"), "step": case.step, "attempts_seen": flog.attempts.len(),
                   "result": run.ended.kind_str(), "info": extra, "wire": render_log(&run.log[.. run.log.len().min(40)])})
        };
        if flog.attempts.len() != want_attempts {
            let what = if flog.attempts.len() > want_attempts {
                if first_non_timeout.map(|i| planned(i) == Fault::Malformed).unwrap_or(false) { "retried after a malformed reply" } else if first_non_timeout.is_none() { "more than r+1 attempts" } else { "retried after a valid reply" }
            } else {
                "fewer attempts than allowed after a timeout"
            };
            o.fail(sig(what), detail(json!({"expected_attempts": want_attempts})));
            return o;
        }
        if let Some(first) = flog.first_requests.first() {
            if let Some(bad) = flog.first_requests.iter().find(|q| *q != first) {
                o.fail(sig("re-sent request differs from the first"), detail(json!({"first": hex(first), "resent": hex(bad)})));
                return o;
            }
        }
        match first_non_timeout.map(planned) {
            Some(Fault::Valid) => {
                match &run.ended {
                    Ended::Ok(v) if *v == base_json => {}
                    Ended::Ok(v) => {
                        let path = crate::util::json_diff_path(&base_json, v).unwrap_or_default();
                        o.fail(sig(&format!("result after retries differs from the fault-free result|{path}")), detail(json!({"fault_free": brief(&base_json), "observed": brief(v)})));
                    }
                    other => {
                        o.fail(sig(&format!("valid attempt within the budget but the query fails|{}", other.kind_str())), detail(json!({})));
                    }
                }
            }
            Some(Fault::Malformed) => {
                match &run.ended {
                    Ended::Err(k) if *k != GDErrorKind::PacketReceive && *k != GDErrorKind::PacketSend => {}
                    // a valid reply cut short may still be acceptable to the parser (e.g. only a trailing byte is missing)
                    Ended::Ok(_) if case.mangle != 0 && case.mangle != 5 && case.mangle != 10 => {}
                    other => {
                        o.fail(sig(&format!("malformed reply must fail with a parse-class error|{}", other.kind_str())), detail(json!({})));
                    }
                }
            }
            _ => {
                match &run.ended {
                    Ended::Err(GDErrorKind::PacketReceive) | Ended::Err(GDErrorKind::PacketSend) => {}
                    other => {
                        o.fail(sig(&format!("all attempts timed out but the query did not fail with a receive/send error|{}", other.kind_str())), detail(json!({})));
                    }
                }
            }
        }
        let _ = Family::Gs1;
        o
    }
}
