//! C18 — settings are validated; no accepted configuration can panic.

use clap::Parser;
use gamedig::protocols::types::TimeoutSettings;
use gamedig::verif_hook::Proto;
use gamedig::GDErrorKind;
use proptest::prelude::*;
use serde::{Deserialize, Serialize};
use serde_json::json;
use std::net::{IpAddr, Ipv4Addr};
use std::time::Duration;

use crate::entries::Entry;
use crate::models::fault::{Fault, Faulty};
use crate::props::c10::{state_for_entry, targets};
use crate::realnet::RealServer;
use crate::runner::{Outcome, Prop, Tier};
use crate::util::doc_ip;
use crate::wire::{run_plain, run_scripted, Ended};

#[derive(Debug, Clone, Copy, PartialEq, Eq, Hash, Serialize, Deserialize)]
pub enum Dur {
    Absent,
    Zero,
    Nano,
    Milli,
    Max,
}

const DURS: [Dur; 5] = [Dur::Absent, Dur::Zero, Dur::Nano, Dur::Milli, Dur::Max];
const RETRIES: [usize; 5] = [0, 1, 2, usize::MAX - 1, usize::MAX];

impl Dur {
    fn value(self) -> Option<Duration> {
        match self {
            Dur::Absent => None,
            Dur::Zero => Some(Duration::ZERO),
            Dur::Nano => Some(Duration::from_nanos(1)),
            Dur::Milli => Some(Duration::from_millis(1)),
            Dur::Max => Some(Duration::from_secs(u64::MAX)),
        }
    }
    /// command-line flags take whole seconds; an absent flag means the 4 s default
    fn clap_value(self) -> Option<Duration> {
        match self {
            Dur::Absent => Some(Duration::from_secs(4)),
            Dur::Zero => Some(Duration::ZERO),
            Dur::Nano | Dur::Milli => Some(Duration::from_secs(1)),
            Dur::Max => Some(Duration::from_secs(u64::MAX)),
        }
    }
}

#[derive(Debug, Clone, Copy, PartialEq, Eq, Hash, Serialize, Deserialize)]
pub enum Path {
    New,
    Default,
    Clap,
    Serde,
}

#[derive(Debug, Clone, Serialize, Deserialize)]
pub struct Case {
    pub read: Dur,
    pub write: Dur,
    pub connect: Dur,
    pub retries: usize,
    pub path: Path,
    /// garbage flag values for the command-line path (parse errors, never panics)
    pub junk: Option<String>,
    /// extra request settings to use for queries (when present, the case is about them only)
    #[serde(default)]
    pub extra: Option<ExtraVals>,
}

/// Values for every member of ExtraRequestSettings (None = left out; toggles 0 skip, 1 try, 2 enforce).
#[derive(Debug, Clone, Serialize, Deserialize)]
pub struct ExtraVals {
    pub hostname: Option<String>,
    pub protocol_version: Option<i32>,
    pub players: Option<u8>,
    pub rules: Option<u8>,
    pub check: Option<bool>,
}

#[derive(Parser, Debug)]
struct Flags {
    #[command(flatten)]
    timeouts: TimeoutSettings,
}

pub struct C18;

fn construct(case: &Case) -> Result<TimeoutSettings, String> {
    match case.path {
        Path::New => TimeoutSettings::new(case.read.value(), case.write.value(), case.connect.value(), case.retries).map_err(|e| format!("{:?}", e.kind)),
        Path::Default => Ok(TimeoutSettings::default()),
        Path::Clap => {
            let mut args: Vec<String> = vec!["prog".into()];
            for (flag, d) in [("--read-timeout", case.read), ("--write-timeout", case.write), ("--connect-timeout", case.connect)] {
                if d != Dur::Absent {
                    args.push(flag.into());
                    args.push(d.clap_value().unwrap().as_secs().to_string());
                }
            }
            args.push("--retries".into());
            args.push(case.retries.to_string());
            if let Some(j) = &case.junk {
                // on the flag chosen by the value's digest, replacing that flag's regular value
                let flag = junk_flag(j);
                if let Some(at) = args.iter().position(|a| a == flag) {
                    args.drain(at ..= at + 1);
                }
                args.push(format!("{flag}={j}"));
            }
            Flags::try_parse_from(args).map(|f| f.timeouts).map_err(|e| format!("clap: {}", e.kind()))
        }
        Path::Serde => {
            let d = |x: Dur| match x.value() {
                None => json!(null),
                Some(v) => json!({"secs": v.as_secs(), "nanos": v.subsec_nanos()}),
            };
            let j = json!({"connect": d(case.connect), "read": d(case.read), "write": d(case.write), "retries": case.retries});
            serde_json::from_value::<TimeoutSettings>(j).map_err(|e| format!("serde: {e}"))
        }
    }
}

fn junk_flag(j: &str) -> &'static str { ["--read-timeout", "--write-timeout", "--connect-timeout"][(crate::runner::digest(j.as_bytes()) % 3) as usize] }

impl Prop for C18 {
    type Case = Case;

    fn id(&self) -> &'static str { "C18" }

    fn rule(&self) -> String {
        "exhaustive: (read, write, connect) in {absent, 0, 1 ns, 1 ms, u64::MAX s}^3 x retries in {0, 1, 2, usize::MAX-1, usize::MAX} x construction path {new, clap flags parsed by a \
         harness Parser that flattens TimeoutSettings, serde JSON} (+ Default). Oracle: a zero duration anywhere => construction fails (InvalidInput / a parse error), otherwise it \
         succeeds and the getters return what was given (flags: whole seconds, absent = the 4 s default). Every accepted value is then used (a) in real-socket queries (Quake 3 over \
         UDP, Minecraft legacy over TCP, Valve over UDP, Eco over HTTP) against loopback servers that answer at once, with retries capped at 1 so that nanosecond read timeouts cannot loop forever, \
         and (b) with its full retry count in scripted queries of all 18 retrying entry points and the definition-driven dispatch of 12 table games against a server that is silent twice and then answers, and against one that answers with a malformed reply (the error path): no panic (overflow checks on), \
         and with r >= 2 the scripted query must succeed. Random cases also draw extra request settings (host names of any content and length, incl. multi-byte characters around byte 255 and names of 200-600 bytes; any protocol version; toggles) and use them for Minecraft Java / auto, Valve, Unreal 2, Quake, GameSpy and Eco queries: no panic. Random cases replace one timeout flag's value by a non-numeric / negative / overflowing value or by one of many spellings of zero (00, +0, 0.0, 0e0, ...): accepted only if u64's parser accepts it and it is not zero, and then the getter must return it. non-trivial = an extreme value is present; distinct = \
         digest of the case"
            .into()
    }

    fn assumptions(&self) -> Vec<String> {
        vec!["a silent server with a huge retry count legitimately never returns; that combination is not generated".into()]
    }

    fn random_cases(&self, tier: Tier) -> u64 { tier.pick(2_000, 100_000) }

    fn hang_secs(&self) -> u64 { 90 }

    fn strategy(&self, _tier: Tier) -> BoxedStrategy<Case> {
        let timeouts = {
        let d = || prop::sample::select(DURS.to_vec());
        (d(), d(), d(), prop_oneof![prop::sample::select(RETRIES.to_vec()), any::<usize>()], prop::sample::select(vec![Path::New, Path::Clap, Path::Serde]),
         prop::option::of(prop_oneof![
             2 => "-[0-9]{1,3}", 2 => "[a-z]{1,4}", 1 => Just("18446744073709551616".to_string()), 1 => Just("1.5".to_string()), 1 => Just("".to_string()), 3 => "[0-9]{1,25}",
             // every spelling of zero the integer parser may accept, and look-alikes
             6 => prop::sample::select(vec!["0", "00", "000", "+0", "+00", "-0", "0.0", "0e0", "0x0", " 0", "0 ", "０", "0_0", "+", "0000000000000000000000000"]).prop_map(|s| s.to_string()),
             2 => "[+]?0{1,30}",
             2 => "[+-]?[0-9]{0,3}[.eE_x][0-9]{0,3}",
         ]))
            .prop_map(|(read, write, connect, retries, path, junk)| Case { read, write, connect, retries, path, junk: if path == Path::Clap { junk } else { None }, extra: None })
        };
        // extra request settings: host names of any length and content (incl. multi-byte characters around byte 255), any protocol version, toggles
        let host = prop_oneof![
            3 => "\\PC{0,40}".prop_map(|s| s),
            2 => (1usize .. 140, prop::sample::select(vec!["é", "ß", "日", "𝄞", "a"]), "[a-z.]{0,8}").prop_map(|(n, unit, tail)| format!("{}{tail}", unit.repeat(n))),
            2 => (240usize .. 270, prop::sample::select(vec!["é", "日", "𝄞"])).prop_map(|(n, unit)| format!("{}{unit}{unit}", "a".repeat(n))),
            1 => "[a-z0-9.-]{200,600}".prop_map(|s| s),
            1 => Just(String::new()),
        ];
        let extra = (prop::option::weighted(0.8, host), prop::option::of(prop_oneof![Just(-1i32), Just(0), Just(i32::MAX), Just(i32::MIN), any::<i32>()]), prop::option::of(0u8 .. 3), prop::option::of(0u8 .. 3), prop::option::of(any::<bool>()))
            .prop_map(|(hostname, protocol_version, players, rules, check)| Case {
                read: Dur::Absent, write: Dur::Absent, connect: Dur::Absent, retries: 0, path: Path::Default, junk: None,
                extra: Some(ExtraVals { hostname, protocol_version, players, rules, check }),
            });
        prop_oneof![3 => timeouts, 1 => extra]
            .boxed()
    }

    fn enumerated<'a>(&'a self, _tier: Tier, shard: usize, nshards: usize) -> Box<dyn Iterator<Item = Case> + 'a> {
        let mut v = vec![Case { read: Dur::Absent, write: Dur::Absent, connect: Dur::Absent, retries: 0, path: Path::Default, junk: None, extra: None }];
        for read in DURS {
            for write in DURS {
                for connect in DURS {
                    for retries in RETRIES {
                        for path in [Path::New, Path::Clap, Path::Serde] {
                            v.push(Case { read, write, connect, retries, path, junk: None, extra: None });
                        }
                    }
                }
            }
        }
        Box::new(v.into_iter().enumerate().filter(move |(i, _)| i % nshards == shard).map(|(_, c)| c))
    }

    fn exhaustive_subspaces(&self, _tier: Tier) -> Vec<String> { vec!["5^3 duration triples x 5 retry counts x 3 construction paths".into()] }

    fn run(&self, case: &Case) -> Outcome {
        let mut o = Outcome::new();
        if let Some(x) = &case.extra {
            // ---- every accepted extra request settings value can be used for a query
            use gamedig::protocols::types::{ExtraRequestSettings, GatherToggle};
            let tog = |v: u8| match v { 0 => GatherToggle::Skip, 1 => GatherToggle::Try, _ => GatherToggle::Enforce };
            let mut extra = ExtraRequestSettings::default();
            if let Some(h) = &x.hostname { extra = extra.set_hostname(h.clone()); }
            if let Some(v) = x.protocol_version { extra = extra.set_protocol_version(v); }
            if let Some(p) = x.players { extra = extra.set_gather_players(tog(p)); }
            if let Some(r) = x.rules { extra = extra.set_gather_rules(tog(r)); }
            if let Some(c) = x.check { extra = extra.set_check_app_id(c); }
            o.label("extra-request-settings");
            if let Some(h) = &x.hostname {
                o.label(match h.len() { 0 => "host-name empty", 1 ..= 255 => "host-name <= 255 bytes", _ => "host-name > 255 bytes" });
                if !h.is_ascii() { o.label("host-name non-ascii"); }
            }
            o.nontrivial = true;
            let ip = doc_ip();
            for game in ["minecraftjava", "minecraft", "teamfortress2", "killingfloor", "q3a", "hce"] {
                let Some(g) = gamedig::GAMES.get(game) else { continue };
                let entry = Entry::Generic { game: game.to_string(), extra: None };
                let st = state_for_entry(&entry, 3);
                let run = run_scripted(st.responder(), || gamedig::query_with_timeout_and_extra_settings(g, &ip, Some(27015), None, Some(extra.clone())).map(|_| ()));
                if let Ended::Panic(p) = &run.ended {
                    o.fail(format!("C18|query with accepted extra settings|panic|{}|{}", p.site(), p.class()), json!({"game": game, "extra": format!("{x:?}").chars().take(400).collect::<String>(), "panic": p}));
                    return o;
                }
            }
            // Eco takes the host name into a URL (an unusable name is an error value)
            if let Some(server) = crate::models::eco::thread_server() {
                let st = crate::runner::sample_one(&crate::models::eco::eco_state().boxed(), "C18-eco", 1);
                server.set_json(&st.body());
                let lo = IpAddr::V4(Ipv4Addr::LOCALHOST);
                let port = server.port;
                let run = run_plain(|| gamedig::query_with_timeout_and_extra_settings(&gamedig::GAMES["eco"], &lo, Some(port), None, Some(extra.clone())).map(|_| ()));
                if let Ended::Panic(p) = &run.ended {
                    o.fail(format!("C18|HTTP query with accepted extra settings|panic|{}|{}", p.site(), p.class()), json!({"extra": format!("{x:?}").chars().take(400).collect::<String>(), "panic": p}));
                }
            }
            return o;
        }
        o.label(format!("path={:?}", case.path));
        let any_zero = [case.read, case.write, case.connect].contains(&Dur::Zero);
        let extreme = any_zero || [case.read, case.write, case.connect].iter().any(|d| matches!(d, Dur::Nano | Dur::Max)) || case.retries >= usize::MAX - 1;
        o.nontrivial = extreme || case.junk.is_some();
        if any_zero { o.label("has-zero-duration"); }
        if case.retries >= usize::MAX - 1 { o.label("huge-retries"); }
        let built = match crate::panics::catch(|| construct(case)) {
            Ok(b) => b,
            Err(p) => {
                o.fail(format!("C18|construct {:?}|panic|{}|{}", case.path, p.site(), p.class()), json!({"case": format!("{case:?}"), "panic": p}));
                return o;
            }
        };
        if let Some(j) = &case.junk {
            // a second --read-timeout with junk: clap must answer with an error or (if numeric and in range) a value; never a panic
            o.label("junk-flag");
            // the flags are whole seconds: what u64's parser accepts, zero excluded
            let numeric = j.parse::<u64>().ok();
            match (&built, numeric) {
                (Ok(_), None) => {
                    o.fail("C18|construct Clap|junk flag value accepted", json!({"value": j, "flag": junk_flag(j)}));
                }
                (Ok(s), Some(0)) => {
                    o.fail("C18|construct Clap|zero duration accepted", json!({"value": j, "flag": junk_flag(j), "settings": format!("{s:?}")}));
                }
                (Ok(s), Some(n)) => {
                    let got = match junk_flag(j) { "--read-timeout" => s.get_read(), "--write-timeout" => s.get_write(), _ => s.get_connect() };
                    if got != Some(Duration::from_secs(n)) {
                        o.fail("C18|construct Clap|getters differ from the given values", json!({"value": j, "flag": junk_flag(j), "settings": format!("{s:?}")}));
                    }
                }
                (Err(_), _) => {}
            }
            if j.parse::<u64>().map(|n| n == 0).unwrap_or(false) { o.label("junk-flag:zero-spelling"); }
            return o;
        }
        let settings = match (built, any_zero && case.path != Path::Default) {
            (Err(e), true) => {
                if case.path == Path::New && e != "InvalidInput" {
                    o.fail(format!("C18|construct New|zero duration rejected with {e} instead of InvalidInput"), json!({"case": format!("{case:?}")}));
                }
                return o;
            }
            (Ok(s), true) => {
                o.fail(format!("C18|construct {:?}|zero duration accepted", case.path), json!({"case": format!("{case:?}"), "settings": format!("{s:?}")}));
                return o;
            }
            (Err(e), false) => {
                o.fail(format!("C18|construct {:?}|valid settings rejected", case.path), json!({"case": format!("{case:?}"), "error": e}));
                return o;
            }
            (Ok(s), false) => s,
        };
        // getters
        if case.path != Path::Default {
            let want = |d: Dur| if case.path == Path::Clap { d.clap_value() } else { d.value() };
            if settings.get_read() != want(case.read) || settings.get_write() != want(case.write) || settings.get_connect() != want(case.connect) || settings.get_retries() != case.retries {
                o.fail(format!("C18|construct {:?}|getters differ from the given values", case.path), json!({"case": format!("{case:?}"), "settings": format!("{settings:?}")}));
                return o;
            }
        }
        // (b) scripted: silent twice, then an answer; the full retry count is used
        let ip = doc_ip();
        for (entry, units, _) in targets() {
            let unit = *units.last().unwrap();
            let mut st = state_for_entry(&entry, 1);
            // (a reply in several parts: code that runs between the parts sees the settings too)
            if let crate::models::family::FamState::Gs1(g) = &mut st {
                g.parts = g.parts.max(3);
            }
            let (faulty, _log) = Faulty::new(st.responder(), entry.family(), unit, 0, vec![Fault::Silent, Fault::Silent]);
            let run = run_scripted(Box::new(faulty), || entry.call_full(&ip, Some(27015), Some(settings)).map(|_| ()));
            match &run.ended {
                Ended::Panic(p) => {
                    o.fail(format!("C18|query with accepted settings|panic|{}|{}", p.site(), p.class()), json!({"entry": entry.sig_name(), "settings": format!("{settings:?}"), "panic": p}));
                    return o;
                }
                Ended::Err(k) if case.retries >= 2 => {
                    o.fail(format!("C18|query with accepted settings|{} retries but the third attempt was not made|{k:?}", if case.retries > 2 { "huge" } else { "2" }), json!({"entry": entry.sig_name(), "settings": format!("{settings:?}")}));
                    return o;
                }
                _ => {}
            }
        }
        // (b') scripted: a reply the parser rejects (never retried, so any retry count returns at once): the error path must not panic either
        for (entry, units, _) in targets() {
            let unit = *units.last().unwrap();
            let st = state_for_entry(&entry, 1);
            let (faulty, _log) = Faulty::new(st.responder(), entry.family(), unit, 0, vec![Fault::Malformed]);
            let run = run_scripted(Box::new(faulty), || entry.call_full(&ip, Some(27015), Some(settings)).map(|_| ()));
            match &run.ended {
                Ended::Panic(p) => {
                    o.fail(format!("C18|query with accepted settings|panic|{}|{}", p.site(), p.class()), json!({"entry": entry.sig_name(), "settings": format!("{settings:?}"), "server": "answers with a malformed reply", "panic": p}));
                    return o;
                }
                Ended::Ok(_) => {
                    o.fail("C18|query with accepted settings|a malformed reply gives Ok", json!({"entry": entry.sig_name(), "settings": format!("{settings:?}")}));
                    return o;
                }
                _ => {}
            }
        }
        // (b'') the detection chains (auto-detect, legacy detection) derive per-variant settings from the caller's: run against a server
        // that only speaks the last legacy variant, one that speaks none, and generic dispatch of the auto-detecting definition
        // (a variant that stays silent is retried `retries` times: only ordinary retry counts terminate here)
        for entry in [Entry::McAuto, Entry::McLegacy, Entry::Generic { game: "minecraft".into(), extra: None }] {
            if case.retries > 2 {
                break;
            }
            for speaks_last in [true, false] {
                let mut st = state_for_entry(&Entry::McLegacySpecific(2), 1);
                if let crate::models::family::FamState::Mc(spec) = &mut st {
                    spec.speaks = if speaks_last { 0b10000 } else { 0 };
                    spec.close_on_unknown = true;
                }
                let run = run_scripted(st.responder(), || entry.call_full(&ip, Some(25565), Some(settings)).map(|_| ()));
                if let Ended::Panic(p) = &run.ended {
                    o.fail(format!("C18|query with accepted settings|panic|{}|{}", p.site(), p.class()), json!({"entry": entry.sig_name(), "settings": format!("{settings:?}"), "server": if speaks_last { "speaks beta 1.8 only" } else { "speaks no variant" }, "panic": p}));
                    return o;
                }
            }
        }
        // (a) real sockets, server answers at once; retries capped
        let capped = TimeoutSettings::new(settings.get_read(), settings.get_write(), settings.get_connect(), settings.get_retries().min(1)).ok();
        let lo = IpAddr::V4(Ipv4Addr::LOCALHOST);
        for entry in [Entry::Quake(3), Entry::McLegacySpecific(0), Entry::Valve { engine: crate::models::valve::EngineSel::SourceNone, players: 1, rules: 1, check: false }] {
            let st = state_for_entry(&entry, 2);
            let proto = if matches!(entry, Entry::McLegacySpecific(_)) { Proto::Tcp } else { Proto::Udp };
            let Some(server) = RealServer::start(proto, lo, Box::new(move || st.responder())) else {
                o.excluded = Some("cannot bind loopback".into());
                return o;
            };
            let port = server.addr.port();
            let mut run = run_plain(|| entry.call_full(&lo, Some(port), capped).map(|_| ()));
            // (a time-out against a healthy loopback server with a one-second timeout is scheduling noise under load: judged on up to two more runs)
            for _ in 0 .. 2 {
                if !matches!(run.ended, Ended::Err(GDErrorKind::PacketReceive) | Ended::Err(GDErrorKind::PacketSend) | Ended::Err(GDErrorKind::SocketConnect)) {
                    break;
                }
                std::thread::sleep(Duration::from_millis(50));
                run = run_plain(|| entry.call_full(&lo, Some(port), capped).map(|_| ()));
            }
            if let Ended::Panic(p) = &run.ended {
                o.fail(format!("C18|real-socket query with accepted settings|panic|{}|{}", p.site(), p.class()), json!({"entry": entry.sig_name(), "settings": format!("{capped:?}"), "panic": p}));
                return o;
            }
            // with sane durations the query must also succeed
            let sane = [case.read, case.write, case.connect].iter().all(|d| matches!(d, Dur::Absent | Dur::Max)) || case.path == Path::Clap;
            if sane {
                if let Ended::Err(k) = &run.ended {
                    if *k != GDErrorKind::PacketReceive || true {
                        o.fail(format!("C18|real-socket query with accepted settings|fails although the server answers at once|{k:?}"), json!({"entry": entry.sig_name(), "settings": format!("{capped:?}")}));
                        return o;
                    }
                }
            }
        }
        // (c) HTTP (Eco through ureq): the same settings against a loopback HTTP server that answers at once
        if let Some(server) = crate::models::eco::thread_server() {
            let st = crate::runner::sample_one(&crate::models::eco::eco_state().boxed(), "C18-eco", 0);
            server.set_json(&st.body());
            let port = server.port;
            let mut run = run_plain(|| gamedig::games::eco::query_with_timeout(&lo, Some(port), &capped).map(|_| ()));
            for _ in 0 .. 2 {
                if !matches!(run.ended, Ended::Err(GDErrorKind::PacketReceive) | Ended::Err(GDErrorKind::PacketSend) | Ended::Err(GDErrorKind::SocketConnect)) {
                    break;
                }
                std::thread::sleep(Duration::from_millis(50));
                server.set_json(&st.body());
                run = run_plain(|| gamedig::games::eco::query_with_timeout(&lo, Some(port), &capped).map(|_| ()));
            }
            if let Ended::Panic(p) = &run.ended {
                o.fail(format!("C18|HTTP query with accepted settings|panic|{}|{}", p.site(), p.class()), json!({"entry": "eco::query", "settings": format!("{capped:?}"), "panic": p}));
                return o;
            }
            let sane = [case.read, case.write, case.connect].iter().all(|d| matches!(d, Dur::Absent | Dur::Max)) || case.path == Path::Clap;
            if sane {
                if let Ended::Err(k) = &run.ended {
                    o.fail(format!("C18|HTTP query with accepted settings|fails although the server answers at once|{k:?}"), json!({"entry": "eco::query", "settings": format!("{capped:?}")}));
                    return o;
                }
            }
        }
        o
    }
}
