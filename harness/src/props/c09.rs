//! C09 — requests are the protocol's, go to the right port, and echo challenges.

use gamedig::games::minecraft;
use gamedig::protocols::types::ExtraRequestSettings;
use gamedig::protocols::{gamespy, valve};
use gamedig::verif_hook::Proto;
use gamedig::GAMES;
use proptest::prelude::*;
use serde::{Deserialize, Serialize};
use serde_json::json;
use std::net::{IpAddr, Ipv6Addr, SocketAddr};

use crate::default_ports::default_port;
use crate::entries::{family_of_game, scripted_game_ids, toggle, Family};
use crate::models::family::{fam_state, Expect, FamState, Gather};
use crate::models::gamespy::{gs3_state, Gs3State};
use crate::models::minecraft::{java_status, parse_handshake, JavaStatus, McServerSpec};
use crate::models::valve::{state_for, A2sState, EngineSel, Framing};
use crate::props::c02::fit;
use crate::runner::{sample_one, Outcome, Prop, Tier};
use crate::util::{doc_ip, text};
use crate::wire::{hex, render_log, run_scripted, Ev};

#[derive(Debug, Clone, Serialize, Deserialize)]
pub enum Case {
    /// definition-driven dispatch for a table game
    Game { game: String, port: Option<u16>, v6: bool, st: FamState },
    /// valve::query against a server that issues the challenges held in the state
    ValveChallenge { st: A2sState },
    Gs3Challenge { st: Gs3State },
    /// Java handshake fields: host name, protocol version (through RequestSettings or ExtraRequestSettings), port
    Java {
        status: JavaStatus,
        hostname: Option<String>,
        protocol_version: Option<i32>,
        port: u16,
        via_extra: bool,
        /// 0 query_java, 1 the auto-detecting protocol query, 2 / 3 the generic query of the `minecraftjava` / auto-detecting `minecraft` definitions
        #[serde(default)]
        route: u8,
    },
    /// the command-line tool against a real loopback Java server: the handshake it sends for `-i <address or name>`, `--hostname`, `--protocol-version`
    JavaCli { status: JavaStatus, hostname: Option<String>, protocol_version: Option<u32>, by_name: bool },
    /// Eco over HTTP (real loopback server: ureq bypasses the scripted transport): request line and Host header
    Eco {
        v6: bool,
        hostname: Option<String>,
        via_generic: bool,
        idx: u64,
        /// no port given: the destination has to be the documented default port (observed on real loopback listeners)
        #[serde(default)]
        port_omitted: bool,
    },
}

pub struct C09;

fn doc_ip6() -> IpAddr { IpAddr::V6(Ipv6Addr::new(0x2001, 0xdb8, 0, 0, 0, 0, 0, 0x17)) }

/// Compare the sends in the log with the expected request sequence.
fn check_sends(log: &[Ev], expected: &[Expect], dest: SocketAddr, java: Option<(i32, &str)>) -> Result<(), (String, serde_json::Value)> {
    // destination of every connection
    let mut conns: Vec<(u64, Proto)> = Vec::new();
    for e in log {
        if let Ev::Open { conn, proto, peer, .. } = e {
            if *peer != dest {
                return Err(("destination".into(), json!({"connection_to": peer.to_string(), "expected": dest.to_string()})));
            }
            conns.push((*conn, *proto));
        }
    }
    let sends: Vec<(usize, Proto, &Vec<u8>)> = log
        .iter()
        .filter_map(|e| {
            match e {
                Ev::Send { conn, data, .. } => {
                    let idx = conns.iter().position(|(c, _)| c == conn)?;
                    Some((idx, conns[idx].1, data))
                }
                _ => None,
            }
        })
        .collect();
    for (i, exp) in expected.iter().enumerate() {
        let Some((idx, proto, data)) = sends.get(i) else {
            return Err((
                "missing request".into(),
                json!({"position": i, "expected": exp.bytes.as_ref().map(|b| hex(b)), "sent": sends.iter().map(|s| hex(s.2)).collect::<Vec<_>>()}),
            ));
        };
        if *proto != exp.proto || *idx != exp.conn {
            return Err(("request on the wrong transport or connection".into(), json!({"position": i, "got": format!("{proto:?}#{idx}"), "expected": format!("{:?}#{}", exp.proto, exp.conn)})));
        }
        match &exp.bytes {
            Some(b) => {
                if *data != b {
                    return Err(("wrong request bytes".into(), json!({"position": i, "sent": hex(data), "expected": hex(b)})));
                }
            }
            None => {
                // Java handshake, checked field by field
                let Some(h) = parse_handshake(data) else {
                    return Err(("java handshake framing".into(), json!({"sent": hex(data)})));
                };
                let (pv, host) = java.unwrap_or((-1, "gamedig"));
                if h.protocol != pv {
                    return Err(("java handshake protocol version".into(), json!({"sent": h.protocol, "expected": pv})));
                }
                if h.host != host {
                    return Err(("java handshake host name".into(), json!({"sent": h.host, "expected": host})));
                }
                if h.port_be != dest.port() {
                    return Err(("java handshake port (big-endian)".into(), json!({"sent_be": h.port_be, "expected": dest.port(), "raw": hex(data)})));
                }
                if h.next_state != 1 {
                    return Err(("java handshake next state".into(), json!({"sent": h.next_state})));
                }
            }
        }
    }
    if sends.len() > expected.len() {
        return Err((
            "extra request".into(),
            json!({"extra": sends[expected.len() ..].iter().map(|s| hex(s.2)).collect::<Vec<_>>(), "expected_count": expected.len()}),
        ));
    }
    Ok(())
}

fn challenge_state(section: u8, challenges: Vec<[u8; 4]>, engine: EngineSel, idx: u64) -> A2sState {
    let mut st = sample_one(&state_for(engine), "C09-valve", idx % 64);
    st.players.truncate(3);
    st.rules.truncate(3);
    for s in [&mut st.t_info, &mut st.t_players, &mut st.t_rules] {
        s.framing = Framing::Single;
        s.challenges.clear();
    }
    match section {
        0 => st.t_info.challenges = challenges,
        1 => st.t_players.challenges = challenges,
        _ => st.t_rules.challenges = challenges,
    }
    fit(&mut st);
    st
}

impl Prop for C09 {
    type Case = Case;

    fn id(&self) -> &'static str { "C09" }

    fn rule(&self) -> String {
        "(a) every table game through the definition-driven dispatch, port given (random u16) or omitted, IPv4 or IPv6 documentation address, against a valid reference \
         server of its family: every connection must go to (caller ip, given port or the documented default port from a frozen copy of the published table) and the \
         complete sequence of sends must equal the request sequence of an independent request grammar (byte literals, challenge follow-ups, Java handshake decoded field \
         by field) with nothing extra. (b) Valve challenges: every single-byte sweep (4 positions x 256 values x 6 backgrounds) on info / players / rules, plus random \
         1-3 round sequences: the follow-up must carry exactly the issued bytes. (c) GameSpy 3 challenges: all integers in [-70000, 70000] (thorough; a stride in quick), \
         all +-2^k+-1, extremes and 0 (= none): the data request must carry the 4-byte big-endian value, or nothing for 0. (d) Java handshake with arbitrary host names \
         (up to 255 bytes, non-ASCII) and any i32 protocol version. (e) Eco over HTTP (real loopback HTTP servers on 127.0.0.1 and ::1, through the generic path and the module function, with and without a configured host name; generated names are DNS names whose labels begin with a letter, because a numeric host is an IPv4 literal to the URL parser): exactly one request, `GET /frontpage HTTP/1.1`, whose Host header is the configured name (or the address literal, bracketed for IPv6) and the port. non-trivial = a challenge round happened or a non-default setting / omitted port was used; distinct = \
         digest of the case"
            .into()
    }

    fn assumptions(&self) -> Vec<String> {
        vec![
            "the legacy Minecraft request literals and the GameSpy session id 1 are the implementation's documented literals".into(),
            "default ports are compared with a frozen copy of the table as published in gamedig 0.6.1 (harness/src/default_ports.rs)".into(),
        ]
    }

    fn random_cases(&self, tier: Tier) -> u64 { tier.pick(60_000, 3_000_000) }

    fn strategy(&self, _tier: Tier) -> BoxedStrategy<Case> {
        let ids: Vec<String> = scripted_game_ids().into_iter().map(|s| s.to_string()).collect();
        let game = (prop::sample::select(ids), prop::option::of(any::<u16>()), prop::bool::weighted(0.25))
            .prop_flat_map(|(game, port, v6)| {
                let fam = family_of_game(&game).unwrap_or(Family::Savage2);
                (Just(game), Just(port), Just(v6), fam_state(fam))
            })
            .prop_map(|(game, port, v6, st)| Case::Game { game, port, v6, st });
        let valve = (0u8 .. 3, prop::collection::vec(any::<[u8; 4]>(), 1 .. 4), prop_oneof![Just(EngineSel::SourceNone), Just(EngineSel::GoldSrc(false)), Just(EngineSel::Ship)], any::<u64>())
            .prop_map(|(section, ch, engine, idx)| Case::ValveChallenge { st: challenge_state(section, ch, engine, idx) });
        let gs3 = gs3_state().prop_map(|st| Case::Gs3Challenge { st });
        let java = (
            java_status(),
            prop::option::of(prop_oneof![text(&[], 60), "[a-z0-9.-]{1,255}".prop_map(|s| s)]),
            prop::option::of(any::<i32>()),
            any::<u16>(),
            any::<bool>(),
            0u8 .. 4,
        )
            .prop_map(|(status, hostname, protocol_version, port, via_extra, route)| Case::Java { status, hostname, protocol_version, port, via_extra, route });
        let eco = (any::<bool>(), prop::option::of(prop_oneof![Just("eco.example.net".to_string()), "[a-z]([a-z0-9-]{0,20}[a-z0-9])?(\\.[a-z][a-z0-9]{0,9}){0,3}".prop_map(|s| s)]), any::<bool>(), 0u64 .. 64, prop::bool::weighted(0.05))
            .prop_map(|(v6, hostname, via_generic, idx, port_omitted)| Case::Eco { v6, hostname, via_generic, idx, port_omitted });
        let java_cli = (java_status(), prop::option::of(text(&[], 40).prop_filter("non-empty", |s| !s.is_empty())), prop::option::of(prop_oneof![0u32 .. 1000, 0u32 ..= i32::MAX as u32]), any::<bool>())
            .prop_map(|(status, hostname, protocol_version, by_name)| Case::JavaCli { status, hostname, protocol_version, by_name });
        prop_oneof![240 => game, 120 => valve, 80 => gs3, 80 => java, 10 => eco, 3 => java_cli].boxed()
    }

    fn enumerated<'a>(&'a self, tier: Tier, shard: usize, nshards: usize) -> Box<dyn Iterator<Item = Case> + 'a> {
        // Valve single-byte sweeps
        let backgrounds: [u8; 6] = [0x00, 0x0A, 0x41, 0xFE, 0xFF, 0x5C];
        let valve = (0u32 .. 4 * 256 * 6).filter(move |k| *k as usize % nshards == shard).map(move |k| {
            let pos = (k % 4) as usize;
            let val = ((k / 4) % 256) as u8;
            let bg = backgrounds[(k / 1024) as usize % 6];
            let mut c = [bg; 4];
            c[pos] = val;
            let section = (k % 3) as u8;
            let engine = if k % 5 == 0 { EngineSel::GoldSrc(false) } else { EngineSel::SourceNone };
            Case::ValveChallenge { st: challenge_state(section, vec![c], engine, k as u64) }
        });
        // GameSpy 3 challenges
        let mut vals: Vec<i32> = Vec::new();
        let stride = tier.pick(37, 1);
        let mut x = -70_000i32;
        while x <= 70_000 {
            vals.push(x);
            x += stride;
        }
        for k in 0 .. 31 {
            for d in [-1i32, 0, 1] {
                vals.push((1i32 << k).wrapping_add(d));
                vals.push((1i32 << k).wrapping_neg().wrapping_add(d));
            }
        }
        vals.extend_from_slice(&[i32::MIN, i32::MIN + 1, i32::MAX, i32::MAX - 1, 0, -1, 1]);
        let base = sample_one(&gs3_state(), "C09-gs3", 0);
        let gs3 = vals.into_iter().enumerate().filter(move |(i, _)| i % nshards == shard).map(move |(_, c)| {
            let mut st = base.clone();
            st.players.truncate(2);
            st.challenge = c;
            Case::Gs3Challenge { st }
        });
        // every table game with the port omitted (IPv4) — the default-port sweep
        let games = scripted_game_ids().into_iter().enumerate().filter(move |(i, _)| i % nshards == shard).map(|(i, id)| {
            let fam = family_of_game(id).unwrap_or(Family::Savage2);
            Case::Game { game: id.to_string(), port: None, v6: false, st: sample_one(&fam_state(fam), "C09-game", i as u64) }
        });
        Box::new(valve.chain(gs3).chain(games))
    }

    fn exhaustive_subspaces(&self, tier: Tier) -> Vec<String> {
        vec![
            "Valve challenges: all 4 x 256 single-byte values over 6 backgrounds".into(),
            format!("GameSpy 3 challenges: [-70000, 70000] with stride {}, all +-2^k+-1, extremes", tier.pick(37, 1)),
            "every table game (except eco) with the port omitted".into(),
        ]
    }

    fn run(&self, case: &Case) -> Outcome {
        let mut o = Outcome::new();
        match case {
            Case::Game { game, port, v6, st } => {
                let Some(g) = GAMES.get(game.as_str()) else {
                    o.fail(format!("C09|games::query|table|game {game} disappeared from the table"), json!({}));
                    return o;
                };
                let fam = family_of_game(game).unwrap_or(Family::Savage2);
                o.label(format!("family={:?}", match fam { Family::Valve(_) => "Valve".to_string(), f => format!("{f:?}") }));
                o.label(if port.is_some() { "port-given" } else { "port-omitted" });
                o.label(if *v6 { "ipv6" } else { "ipv4" });
                o.nontrivial = port.is_none() || *v6;
                let ip = if *v6 { doc_ip6() } else { doc_ip() };
                let Some(dflt) = default_port(game) else {
                    o.fail(format!("C09|games::query|table|no documented default port for {game}"), json!({}));
                    return o;
                };
                let dest = SocketAddr::new(ip, port.unwrap_or(dflt));
                let gather = Gather {
                    players: match g.request_settings.gather_players { Some(t) => t as u8, None => 1 },
                    rules: match g.request_settings.gather_rules { Some(t) => t as u8, None => 1 },
                };
                // Unreal 2 through the generic dispatch uses the protocol's defaults (rules Enforce, players Try)
                let gather = if fam == Family::Unreal2 { Gather { players: 1, rules: 2 } } else { gather };
                let run = run_scripted(st.responder(), || gamedig::query_with_timeout_and_extra_settings(g, &ip, *port, None, None).map(|_| ()));
                let expected = st.expected_requests(fam, gather, false);
                if let Err((what, detail)) = check_sends(&run.log, &expected, dest, None) {
                    o.fail(
                        format!("C09|games::query[{}]|{what}", match fam { Family::Valve(_) => "Valve".to_string(), f => format!("{f:?}") }),
                        json!({"game": game, "detail": detail, "result": run.ended.kind_str(), "wire": render_log(&run.log[.. run.log.len().min(24)])}),
                    );
                }
            }
            Case::ValveChallenge { st } => {
                let n = st.t_info.challenges.len() + st.t_players.challenges.len() + st.t_rules.challenges.len();
                o.label(format!("valve-challenge-rounds={n}"));
                o.nontrivial = n > 0;
                let addr = SocketAddr::new(doc_ip(), 27015);
                let g = valve::GatheringSettings { players: toggle(2), rules: toggle(2), check_app_id: false };
                let fs = FamState::Valve(st.clone());
                let engine = st.engine.engine();
                let run = run_scripted(fs.responder(), || valve::query(&addr, engine, Some(g), None).map(|_| ()));
                let expected = fs.expected_requests(Family::Valve(st.engine), Gather { players: 2, rules: 2 }, false);
                if let Err((what, detail)) = check_sends(&run.log, &expected, addr, None) {
                    o.fail(format!("C09|valve::query|challenge echo|{what}"), json!({"detail": detail, "result": run.ended.kind_str(), "wire": render_log(&run.log[.. run.log.len().min(24)])}));
                } else if !matches!(run.ended, crate::wire::Ended::Ok(_)) {
                    o.fail(format!("C09|valve::query|challenge echo|query failed {}", run.ended.kind_str()), json!({"wire": render_log(&run.log[.. run.log.len().min(24)])}));
                }
            }
            Case::Gs3Challenge { st } => {
                o.label(if st.challenge == 0 { "gs3-challenge-0" } else if st.challenge < 0 { "gs3-challenge-negative" } else { "gs3-challenge-positive" });
                o.nontrivial = true;
                let addr = SocketAddr::new(doc_ip(), 64100);
                let fs = FamState::Gs3(st.clone());
                let run = run_scripted(fs.responder(), || gamespy::three::query(&addr, None).map(|_| ()));
                let expected = fs.expected_requests(Family::Gs3, Gather { players: 1, rules: 1 }, false);
                if let Err((what, detail)) = check_sends(&run.log, &expected, addr, None) {
                    o.fail(format!("C09|gamespy::three::query|challenge echo|{what}"), json!({"challenge": st.challenge, "detail": detail, "wire": render_log(&run.log[.. run.log.len().min(12)])}));
                } else if !matches!(run.ended, crate::wire::Ended::Ok(_)) {
                    o.fail(format!("C09|gamespy::three::query|challenge echo|query failed {}", run.ended.kind_str()), json!({"challenge": st.challenge, "wire": render_log(&run.log[.. run.log.len().min(12)])}));
                }
            }
            Case::Eco { v6, hostname, via_generic, idx, port_omitted } => {
                if *port_omitted {
                    o.label("eco-port-omitted");
                    o.nontrivial = true;
                    let documented = default_port("eco").unwrap_or(0);
                    match crate::props::c14::eco_destination_without_port(*via_generic) {
                        None => {
                            o.excluded = Some("eco default-port observation skipped: loopback ports 3000/3001 are not free".into());
                            o.nontrivial = false;
                        }
                        Some(hit) if hit != vec![documented] => {
                            o.fail("C09|eco::query|port omitted|the connection does not go to the documented default port", json!({"connects_to": hit, "documented_default": documented, "via_generic": via_generic}));
                        }
                        Some(_) => {}
                    }
                    return o;
                }
                use crate::models::eco::{eco_state, thread_server, thread_server_v6};
                o.label(format!("eco-http ipv{} host-name={} via-{}", if *v6 { 6 } else { 4 }, hostname.is_some(), if *via_generic { "generic" } else { "module" }));
                o.nontrivial = true;
                let server = if *v6 { thread_server_v6() } else { thread_server() };
                let Some(server) = server else {
                    o.excluded = Some(format!("cannot bind the IPv{} loopback address (class skipped)", if *v6 { 6 } else { 4 }));
                    o.nontrivial = false;
                    return o;
                };
                let st = sample_one(&eco_state().boxed(), "C09-eco", *idx);
                server.set_json(&st.body());
                let ip: IpAddr = if *v6 { Ipv6Addr::LOCALHOST.into() } else { std::net::Ipv4Addr::LOCALHOST.into() };
                let port = server.port;
                let mut extra = gamedig::protocols::types::ExtraRequestSettings::default();
                if let Some(h) = hostname {
                    extra = extra.set_hostname(h.clone());
                }
                let t = gamedig::protocols::types::TimeoutSettings::new(Some(std::time::Duration::from_secs(3)), Some(std::time::Duration::from_secs(3)), Some(std::time::Duration::from_secs(3)), 0).ok();
                let ask = || {
                    crate::wire::run_plain(|| {
                        if *via_generic {
                            gamedig::query_with_timeout_and_extra_settings(&GAMES["eco"], &ip, Some(port), t, Some(extra.clone())).map(|_| ())
                        } else {
                            gamedig::games::eco::query_with_timeout_and_extra_settings(&ip, Some(port), &t, Some(extra.clone().into())).map(|_| ())
                        }
                    })
                };
                let mut run = ask();
                // (a transport-class failure against the healthy loopback HTTP server is scheduling noise: judged on up to two fresh requests)
                for _ in 0 .. 2 {
                    if !matches!(run.ended, crate::wire::Ended::Err(gamedig::GDErrorKind::PacketSend) | crate::wire::Ended::Err(gamedig::GDErrorKind::PacketReceive) | crate::wire::Ended::Err(gamedig::GDErrorKind::SocketConnect)) {
                        break;
                    }
                    std::thread::sleep(std::time::Duration::from_millis(30));
                    server.set_json(&st.body());
                    run = ask();
                }
                let reqs = server.requests();
                let literal = if *v6 { "[::1]".to_string() } else { "127.0.0.1".to_string() };
                let want_host = format!("{}:{port}", hostname.clone().unwrap_or(literal));
                let detail = json!({"ipv6": v6, "host_name": hostname, "via_generic": via_generic, "requests": format!("{reqs:?}").chars().take(600).collect::<String>(), "result": run.ended.kind_str(), "expected_host": want_host});
                if !matches!(run.ended, crate::wire::Ended::Ok(_)) {
                    o.fail(format!("C09|eco::query|http request|query failed {}", run.ended.kind_str()), detail);
                } else if reqs.len() != 1 {
                    o.fail("C09|eco::query|http request|not exactly one request", detail);
                } else if reqs[0].0 != "GET /frontpage HTTP/1.1" {
                    o.fail("C09|eco::query|http request|request line", detail);
                } else if !reqs[0].1.iter().any(|(k, v)| k == "host" && v.eq_ignore_ascii_case(&want_host)) {
                    o.fail("C09|eco::query|http request|Host header", detail);
                }
            }
            Case::JavaCli { status, hostname, protocol_version, by_name } => {
                o.label("java-route=gamedig_cli");
                o.label(if *by_name { "cli-address=name" } else { "cli-address=literal" });
                o.nontrivial = true;
                // the address `localhost` resolves to, found the way the tool finds it
                let ip: IpAddr = if *by_name {
                    use std::net::ToSocketAddrs;
                    match "localhost:0".to_socket_addrs().ok().and_then(|mut a| a.next()) {
                        Some(a) => a.ip(),
                        None => {
                            o.excluded = Some("`localhost` does not resolve here".into());
                            o.nontrivial = false;
                            return o;
                        }
                    }
                } else {
                    std::net::Ipv4Addr::LOCALHOST.into()
                };
                let spec = McServerSpec {
                    speaks: 1,
                    java: status.clone(),
                    bedrock: sample_one(&crate::models::minecraft::bedrock_status(), "C09-b", 0),
                    legacy: sample_one(&crate::models::minecraft::legacy_status(), "C09-l", 0),
                    close_on_unknown: true,
                };
                let want_host = hostname.clone().unwrap_or_else(|| if *by_name { "localhost".to_string() } else { "gamedig".to_string() });
                let want_pv = protocol_version.map(|v| v as i32).unwrap_or(-1);
                let cli = std::env::var("GDV_CLI").unwrap_or_else(|_| "/verif/harness/target/cli/debug/gamedig_cli".into());
                // what follows the handshake on the stream: the literal requests of the reference exchange
                let tail: Vec<u8> = FamState::Mc(spec.clone()).expected_requests(Family::McJava, Gather { players: 1, rules: 1 }, false).iter().filter_map(|e| e.bytes.clone()).flatten().collect();
                let mut last: Option<(String, serde_json::Value)> = None;
                for secs in [2u32, 6] {
                    let fs = FamState::Mc(spec.clone());
                    let Some(server) = crate::realnet::RealServer::start(Proto::Tcp, ip, Box::new(move || fs.responder())) else {
                        o.excluded = Some(format!("cannot bind {ip}"));
                        o.nontrivial = false;
                        return o;
                    };
                    let port = server.addr.port();
                    let mut args: Vec<String> = vec!["query".into(), "-g".into(), "minecraftjava".into(), "-i".into(), if *by_name { "localhost".into() } else { "127.0.0.1".into() }, "-p".into(), port.to_string()];
                    if let Some(h) = hostname {
                        args.push(format!("--hostname={h}"));
                    }
                    if let Some(v) = protocol_version {
                        args.push("--protocol-version".into());
                        args.push(v.to_string());
                    }
                    for f in ["--read-timeout", "--connect-timeout", "--write-timeout"] {
                        args.push(f.into());
                        args.push(secs.to_string());
                    }
                    let out = std::process::Command::new(&cli).args(&args).stdin(std::process::Stdio::null()).env_remove("RUST_BACKTRACE").output();
                    let Ok(out) = out else {
                        o.fail("C09|setup|cannot start the CLI", json!({"path": cli}));
                        return o;
                    };
                    // the tool has exited, so everything it sent is on its way: the server thread gets up to a second to file it
                    let mut bytes: Vec<u8> = Vec::new();
                    let mut verdict: Option<(String, serde_json::Value)> = None;
                    for _ in 0 .. 100 {
                        bytes = server.seen.lock().unwrap().received.concat();
                        let detail = |what: serde_json::Value| json!({"args": args, "exit": out.status.code(), "stderr": String::from_utf8_lossy(&out.stderr).chars().take(300).collect::<String>(), "server_received": hex(&bytes), "info": what});
                        // two frames: handshake, status request
                        let mut p = 0usize;
                        let mut len = 0usize;
                        let mut shift = 0;
                        while let Some(b) = bytes.get(p) {
                            len |= ((b & 0x7F) as usize) << shift;
                            shift += 7;
                            p += 1;
                            if b & 0x80 == 0 || shift > 28 {
                                break;
                            }
                        }
                        // (the server answers and closes as soon as it has the status request: whether the ping request that follows is still read is a race)
                        let incomplete = bytes.is_empty() || bytes.len() < p + len + 2;
                        verdict = if bytes.is_empty() {
                            Some(("nothing reached the server".into(), detail(json!({}))))
                        } else if bytes.len() < p + len {
                            Some(("java handshake framing".into(), detail(json!({}))))
                        } else {
                            match parse_handshake(&bytes[.. p + len]) {
                                None => Some(("java handshake framing".into(), detail(json!({})))),
                                Some(h) if h.protocol != want_pv => Some(("java handshake protocol version".into(), detail(json!({"sent": h.protocol, "expected": want_pv})))),
                                Some(h) if h.host != want_host => Some(("java handshake host name".into(), detail(json!({"sent": h.host, "expected": want_host})))),
                                Some(h) if h.port_be != port => Some(("java handshake port (big-endian)".into(), detail(json!({"sent_be": h.port_be, "expected": port})))),
                                Some(h) if h.next_state != 1 => Some(("java handshake next state".into(), detail(json!({"sent": h.next_state})))),
                                Some(_) if bytes.len() < p + len + 2 || !tail.starts_with(&bytes[p + len ..]) => Some(("status request".into(), detail(json!({"after_handshake": hex(&bytes[p + len ..]), "expected": hex(&tail)})))),
                                Some(_) => None,
                            }
                        };
                        if verdict.is_none() || !incomplete {
                            break;
                        }
                        std::thread::sleep(std::time::Duration::from_millis(10));
                    }
                    match verdict {
                        None => {
                            last = None;
                            break;
                        }
                        // (an empty or cut-off capture can be scheduling noise: judged on the patient run)
                        Some(v) => last = Some(v),
                    }
                    if !matches!(last.as_ref().map(|l| l.0.as_str()), Some("nothing reached the server") | Some("java handshake framing") | Some("status request")) {
                        break;
                    }
                }
                if let Some((what, detail)) = last {
                    o.fail(format!("C09|gamedig_cli[minecraftjava]|{what}"), detail);
                }
            }
            Case::Java { status, hostname, protocol_version, port, via_extra, route } => {
                o.label(if *via_extra || *route >= 2 { "java-settings-via-extra" } else { "java-settings-direct" });
                o.label(["java-route=query_java", "java-route=protocol::query (auto-detect)", "java-route=games::query[minecraftjava]", "java-route=games::query[minecraft] (auto-detect)"][(*route).min(3) as usize]);
                o.nontrivial = hostname.is_some() || protocol_version.is_some();
                let addr = SocketAddr::new(doc_ip(), *port);
                let spec = McServerSpec {
                    speaks: 1,
                    java: status.clone(),
                    bedrock: sample_one(&crate::models::minecraft::bedrock_status(), "C09-b", 0),
                    legacy: sample_one(&crate::models::minecraft::legacy_status(), "C09-l", 0),
                    close_on_unknown: true,
                };
                let fs = FamState::Mc(spec);
                let want_host = hostname.clone().unwrap_or_else(|| "gamedig".to_string());
                let want_pv = protocol_version.unwrap_or(-1);
                let settings: Option<minecraft::RequestSettings> = if *via_extra {
                    let mut e = ExtraRequestSettings::default();
                    e.hostname = hostname.clone();
                    e.protocol_version = *protocol_version;
                    Some(e.into())
                } else if hostname.is_none() && protocol_version.is_none() {
                    None
                } else {
                    Some(minecraft::RequestSettings { hostname: want_host.clone(), protocol_version: want_pv })
                };
                let mut extra = ExtraRequestSettings::default();
                extra.hostname = hostname.clone();
                extra.protocol_version = *protocol_version;
                let ip = addr.ip();
                let run = run_scripted(fs.responder(), || {
                    match *route {
                        0 => minecraft::protocol::query_java(&addr, None, settings).map(|_| ()),
                        1 => minecraft::protocol::query(&addr, None, settings).map(|_| ()),
                        2 => gamedig::query_with_timeout_and_extra_settings(&GAMES["minecraftjava"], &ip, Some(*port), None, Some(extra.clone())).map(|_| ()),
                        _ => gamedig::query_with_timeout_and_extra_settings(&GAMES["minecraft"], &ip, Some(*port), None, Some(extra.clone())).map(|_| ()),
                    }
                });
                let expected = fs.expected_requests(Family::McJava, Gather { players: 1, rules: 1 }, false);
                let name = ["minecraft::query_java", "minecraft::protocol::query", "games::query[minecraftjava]", "games::query[minecraft]"][(*route).min(3) as usize];
                if let Err((what, detail)) = check_sends(&run.log, &expected, addr, Some((want_pv, &want_host))) {
                    o.fail(format!("C09|{name}|{what}"), json!({"detail": detail, "wire": render_log(&run.log[.. run.log.len().min(12)])}));
                }
            }
        }
        o
    }
}
