//! C06 — Unreal 2 replies decode strings and lists without loss or addition.

use gamedig::protocols::types::GatherToggle;
use gamedig::protocols::unreal2::{self, GatheringSettings};
use proptest::prelude::*;
use std::net::SocketAddr;

use crate::models::unreal2::*;
use crate::runner::{sample_one, Outcome, Prop, Tier};
use crate::util::{doc_ip, expect_equal};
use crate::wire::run_scripted;

static FIDELITY: std::sync::atomic::AtomicU64 = std::sync::atomic::AtomicU64::new(0);

pub struct C06;

fn base_state(i: u64) -> U2State {
    let mut st = sample_one(&u2_state(), "C06-base", i);
    st.rules.truncate(3);
    st.players.truncate(2);
    st
}

impl Prop for C06 {
    type Case = U2State;

    fn id(&self) -> &'static str { "C06" }

    fn extra_evidence(&self) -> serde_json::Value {
        serde_json::json!({"traces_validated_against_impl": FIDELITY.load(std::sync::atomic::Ordering::Relaxed),
                           "traces_validated_note": "a sample of the cases is replayed over real loopback sockets with the same reference server; the result must equal the scripted-transport result"})
    }

    fn rule(&self) -> String {
        "random Unreal 2 server states (server info, 0-24 rules with repeated keys and Mutator keys in any case, 0-64 players with ping 0 = bot, \
         1-6+ datagrams per list, strings in Latin-1 and UCS-2 with and without the stray 01 byte, colour escapes and control codes) encoded by a \
         reference encoder; unreal2::query must equal the expected response computed from the characters the model chose. Every length-byte value \
         (Latin-1 0..=127, UCS-2 0x81..=0xFF with and without the stray byte) and the UCS-2 strings that begin with U+FEFF / U+FFFE / a UTF-8 BOM \
         look-alike are emitted deterministically in every run. non-trivial = some string has a length byte >= 27, is UCS-2 or contains an escape; \
         distinct = digest of the state"
            .into()
    }

    fn assumptions(&self) -> Vec<String> {
        vec![
            "Latin-1 text is drawn from U+0020-7E and U+00A0-FF (where Latin-1 and Windows-1252 agree); colour components are 1..=255 and never ESC".into(),
            "num_players in the server info is >= the number of players listed (the client stops reading once it has that many)".into(),
            "a string's declared length equals its content (+ terminator); every datagram is <= 1024 bytes".into(),
            "no (key, value) pair is repeated exactly (datagrams carry no sequence number: byte-identical datagrams are indistinguishable from one datagram delivered twice, which the client ignores)".into(),
        ]
    }

    fn random_cases(&self, tier: Tier) -> u64 { tier.pick(40_000, 2_000_000) }

    fn strategy(&self, _tier: Tier) -> BoxedStrategy<U2State> { u2_state().boxed() }

    fn enumerated<'a>(&'a self, _tier: Tier, shard: usize, nshards: usize) -> Box<dyn Iterator<Item = U2State> + 'a> {
        let mut v = Vec::new();
        let mut k = 0u64;
        let mut push = |st: U2State| {
            k += 1;
            if k as usize % nshards == shard {
                v.push(st);
            }
        };
        // every length byte, three encodings; the swept string is the server name and a player name
        for n in 0usize ..= 126 {
            for enc in [Enc::Latin1, Enc::Ucs2 { stray01: false }, Enc::Ucs2 { stray01: true }] {
                let mut st = base_state(n as u64);
                let text: String = (0 .. n).map(|i| (b'a' + (i % 26) as u8) as char).collect();
                st.name = UStr::plain(&text, enc);
                if let Some(p) = st.players.first_mut() {
                    p.name = UStr::plain(&text, enc);
                }
                push(st);
            }
        }
        // the alternative forms of the empty string (length bytes 01 and 80), in the name (other fields follow it) and in a player name
        for (i, enc) in [Enc::Latin1, Enc::Ucs2 { stray01: false }].into_iter().enumerate() {
            for alt_empty in [false, true] {
                let mut st = base_state(500 + i as u64);
                st.name = UStr { pieces: vec![], enc, alt_empty };
                st.map = UStr { pieces: vec![], enc, alt_empty };
                if let Some(p) = st.players.first_mut() {
                    p.name = UStr { pieces: vec![], enc, alt_empty };
                }
                push(st);
            }
        }
        // UCS-2 strings (not in the stray-01 form) whose first byte is 01: Cyrillic Ё, the ideographic comma, the full-width exclamation mark
        for (i, first) in ['\u{0401}', '\u{3001}', '\u{FF01}', '\u{0101}'].into_iter().enumerate() {
            for place in 0 .. 3 {
                let mut st = base_state(700 + i as u64);
                let mut pieces = vec![Piece::Ch(first)];
                pieces.extend("lka".chars().map(Piece::Ch));
                let u = UStr { pieces, enc: Enc::Ucs2 { stray01: false }, alt_empty: false };
                match place {
                    0 => st.name = u,
                    1 => st.map = u,
                    _ => {
                        if let Some(p) = st.players.first_mut() {
                            p.name = u;
                        } else {
                            st.game_type = u;
                        }
                    }
                }
                push(st);
            }
        }
        // UCS-2 strings whose first bytes look like a byte-order mark
        for (i, first) in ['\u{FEFF}', '\u{FFFE}', '\u{BBEF}'].into_iter().enumerate() {
            for stray01 in [false, true] {
                let mut st = base_state(1000 + i as u64);
                let mut pieces = vec![Piece::Ch(first), Piece::Ch('\u{41BF}')];
                pieces.extend("name".chars().map(Piece::Ch));
                st.name = UStr { pieces, enc: Enc::Ucs2 { stray01 }, alt_empty: false };
                push(st);
            }
        }
        // colour escapes at start / middle / end, both encodings
        for (i, pos) in [0usize, 3, 6].into_iter().enumerate() {
            for enc in [Enc::Latin1, Enc::Ucs2 { stray01: false }] {
                let mut st = base_state(2000 + i as u64);
                let mut pieces: Vec<Piece> = "Server".chars().map(Piece::Ch).collect();
                pieces.insert(pos, Piece::Color(255, 1, 128));
                st.name = UStr { pieces, enc, alt_empty: false };
                push(st);
            }
        }
        Box::new(v.into_iter())
    }

    fn exhaustive_subspaces(&self, _tier: Tier) -> Vec<String> {
        vec!["every length-byte value: Latin-1 strings of 0..=126 characters, UCS-2 strings of 0..=126 units with and without the stray 01 byte, and both wire forms of the empty string in each encoding (00 / 01 00, 80 / 81 00 00)".into()]
    }

    fn run(&self, st: &U2State) -> Outcome {
        let mut o = Outcome::new();
        let strings = st.all_strings();
        let long = strings.iter().any(|s| s.length_byte() >= 27 && s.length_byte() < 0x80);
        let ucs2 = strings.iter().any(|s| matches!(s.enc, Enc::Ucs2 { .. }));
        let esc = strings.iter().any(|s| s.has_escape());
        if long {
            o.label("latin1-length>=27");
        }
        if ucs2 {
            o.label("ucs2");
        }
        if esc {
            o.label("escape");
        }
        o.label(format!("name-lenbyte={:02x}", st.name.length_byte()));
        let rd = st.rule_datagrams();
        let pd = st.player_datagrams();
        o.label(format!("rule-datagrams={}", rd.len().min(7)));
        o.label(format!("player-datagrams={}", pd.len().min(7)));
        o.label(match st.players.len() {
            0 => "players=0",
            1 ..= 3 => "players=1-3",
            4 ..= 19 => "players=4-19",
            _ => "players=20-64",
        });
        if st.players.iter().any(|p| p.ping == 0) {
            o.label("has-bot");
        }
        o.nontrivial = long || ucs2 || esc;
        let gather = GatheringSettings {
            players: GatherToggle::Enforce,
            mutators_and_rules: GatherToggle::Enforce,
        };
        let addr = SocketAddr::new(doc_ip(), 7778);
        let server = U2Server::from_state(st);
        let run = run_scripted(Box::new(server), || unreal2::query(&addr, &gather, None));
        o.failure = expect_equal("C06", "unreal2::query", &run, &st.expected(), &[".rules", ".mutators"]);
        // a UCS-2 string that is NOT in the stray-01 form but whose first byte is 01 (U+0101, U+0401, U+3001, U+FF01 ... first): the client
        // takes the byte for the stray 01 some games insert. The class has its own signature (it is a known finding, see DESIGN §8).
        let leading_01 = strings.iter().any(|s| matches!(s.enc, Enc::Ucs2 { stray01: false }) && s.first_unit().map(|u| u & 0xFF == 1).unwrap_or(false));
        if leading_01 {
            o.label("ucs2-leading-byte-01");
            if o.failure.is_some() {
                let detail = o.failure.take().map(|f| f.detail).unwrap_or_default();
                o.fail("C06|unreal2::query|UCS-2 string beginning with a byte 01 is read as the stray-01 form", detail);
            }
        }
        // (the client waits one read timeout for the end of the rule list: a small sample, short timeouts)
        if o.failure.is_none() && crate::runner::digest(format!("{:?}", st.name).as_bytes()) % 400 == 0 {
            let st2 = st.clone();
            let make = move || Box::new(U2Server::from_state(&st2)) as Box<dyn crate::wire::Responder>;
            if let Some(real) = crate::realnet::fidelity("C06", gamedig::verif_hook::Proto::Udp, make, &run, 250, |a, t| unreal2::query(&a, &gather, t), &FIDELITY) {
                o.fail(format!("C06|real sockets|C06|differs from the scripted transport|{real}"), serde_json::json!({"over_real_loopback_sockets": real, "scripted_transport": "Ok (equal to the reference value)"}));
            }
        }
        o
    }
}
