//! C15 — the protocol-independent view equals the protocol-specific data.

use gamedig::protocols::types::{CommonPlayer, CommonResponse, GenericPlayer, GenericResponse};
use gamedig::protocols::valve::GatheringSettings;
use gamedig::protocols::{gamespy, quake};
use proptest::prelude::*;
use serde::{Deserialize, Serialize};
use serde_json::{json, Value};

use crate::models::eco::{eco_state, EcoState};
use crate::models::gamespy::{gs1_state, gs2_state, gs3_state, Gs1State, Gs2State, Gs3State};
use crate::models::minecraft::{bedrock_status, java_status, legacy_status, BedrockStatus, JavaStatus, LegacyStatus};
use crate::models::misc::{ffow_state, jc2m_state, mindustry_state, savage2_state, FfowState, Jc2mState, MindustryState, Savage2State};
use crate::models::quake::{state as quake_state, QuakeState};
use crate::models::unreal2::{u2_state, U2State};
use crate::models::valve::{state, state_for, A2sState, EngineSel};
use crate::runner::{Outcome, Prop, Tier};

#[derive(Debug, Clone, Serialize, Deserialize)]
pub enum Case {
    Valve { st: A2sState, players: u8, rules: u8 },
    Gs1(Gs1State),
    Gs2(Gs2State),
    Gs3(Gs3State),
    Quake(QuakeState),
    Unreal2(U2State),
    Java(JavaStatus),
    Legacy(LegacyStatus, u8),
    Bedrock(BedrockStatus),
    TheShip(A2sState),
    Ffow(FfowState),
    Jc2m(Jc2mState),
    Savage2(Savage2State),
    Mindustry(MindustryState),
    Eco(EcoState),
}

/// accessor -> where the value lives in the serialised protocol-specific response (None = the type has no such field).
struct Table {
    ty: &'static str,
    name: Option<&'static str>,
    description: Option<&'static str>,
    game_mode: Option<&'static str>,
    game_version: Option<&'static str>,
    map: Option<&'static str>,
    players_maximum: &'static str,
    players_online: &'static str,
    players_bots: Option<&'static str>,
    has_password: Option<&'static str>,
    /// pointer to the player list; None = no generic player list
    players: Option<&'static str>,
    /// (name field, score field) inside a player
    player_fields: (&'static str, Option<&'static str>),
    /// Mindustry: counts are signed on the wire (negative = 0), the mode is an enum shown in lower case
    mindustry: bool,
}

const fn t(ty: &'static str) -> Table {
    Table {
        ty,
        name: None,
        description: None,
        game_mode: None,
        game_version: None,
        map: None,
        players_maximum: "/players_maximum",
        players_online: "/players_online",
        players_bots: None,
        has_password: None,
        players: None,
        player_fields: ("name", Some("score")),
        mindustry: false,
    }
}

// From RESPONSES.md (rows name .. players, column per type) and the types' documentation.
fn table_for(ty: &str) -> Table {
    match ty {
        "valve" => Table { name: Some("/info/name"), game_mode: Some("/info/game_mode"), game_version: Some("/info/game_version"), map: Some("/info/map"), players_maximum: "/info/players_maximum", players_online: "/info/players_online", players_bots: Some("/info/players_bots"), has_password: Some("/info/has_password"), players: Some("/players"), ..t("valve::Response") },
        "gs1" => Table { name: Some("/name"), game_mode: Some("/game_mode"), game_version: Some("/game_version"), map: Some("/map"), has_password: Some("/has_password"), players: Some("/players"), ..t("gamespy::one::Response") },
        "gs2" => Table { name: Some("/name"), map: Some("/map"), has_password: Some("/has_password"), players: Some("/players"), ..t("gamespy::two::Response") },
        "gs3" => Table { name: Some("/name"), game_mode: Some("/game_mode"), game_version: Some("/game_version"), map: Some("/map"), has_password: Some("/has_password"), players: Some("/players"), ..t("gamespy::three::Response") },
        "quake1" | "quake2" => Table { name: Some("/name"), game_version: Some("/game_version"), map: Some("/map"), players: Some("/players"), ..t("quake::Response") },
        "unreal2" => Table { name: Some("/server_info/name"), game_mode: Some("/server_info/game_type"), map: Some("/server_info/map"), players_maximum: "/server_info/max_players", players_online: "/server_info/num_players", has_password: Some("/server_info/password"), players: Some("/players/players"), ..t("unreal2::Response") },
        "java" => Table { description: Some("/description"), game_version: Some("/game_version"), players: Some("/players"), player_fields: ("name", None), ..t("minecraft::JavaResponse") },
        "bedrock" => Table { name: Some("/name"), game_version: Some("/version_name"), map: Some("/map"), ..t("minecraft::BedrockResponse") },
        "theship" => Table { name: Some("/name"), game_mode: Some("/game_mode"), game_version: Some("/game_version"), map: Some("/map"), players_bots: Some("/players_bots"), has_password: Some("/has_password"), players: Some("/players"), ..t("theship::Response") },
        "ffow" => Table { name: Some("/name"), description: Some("/description"), game_mode: Some("/game_mode"), game_version: Some("/game_version"), map: Some("/map"), has_password: Some("/has_password"), ..t("ffow::Response") },
        "jc2m" => Table { name: Some("/name"), description: Some("/description"), game_version: Some("/game_version"), has_password: Some("/has_password"), players: Some("/players"), player_fields: ("name", None), ..t("jc2m::Response") },
        "savage2" => Table { name: Some("/name"), game_mode: Some("/game_mode"), map: Some("/map"), ..t("savage2::Response") },
        "mindustry" => Table { description: Some("/description"), game_mode: Some("/gamemode"), map: Some("/map"), players_maximum: "/player_limit", players_online: "/players", mindustry: true, ..t("mindustry::ServerData") },
        _ => Table { description: Some("/description"), game_version: Some("/game_version"), has_password: Some("/has_password"), players: Some("/players"), player_fields: ("name", None), ..t("eco::Response") },
    }
}

fn opt_str(v: Option<&str>) -> Value { v.map(|s| Value::String(s.to_string())).unwrap_or(Value::Null) }

/// Check one response value against its table. `same_address` says whether as_original() wraps this very value.
fn check<R: CommonResponse + Serialize>(kind: &str, resp: &R, same_address: bool, o: &mut Outcome) {
    let tb = table_for(kind);
    let spec = serde_json::to_value(resp).unwrap_or(Value::Null);
    let at = |p: Option<&str>| -> Value { p.and_then(|p| spec.pointer(p)).cloned().unwrap_or(Value::Null) };
    let mut fail = |what: &str, got: Value, want: Value| {
        o.fail(format!("C15|{}|{what}", tb.ty), json!({"accessor_or_key": what, "observed": got, "expected": want, "response": crate::util::brief(&spec)}));
    };
    // string accessors
    let mut want_mode = at(tb.game_mode);
    if tb.mindustry {
        want_mode = want_mode.as_str().map(|s| Value::String(s.to_lowercase())).unwrap_or(Value::Null);
    }
    let strings: [(&str, Value, Value); 5] = [
        ("name", opt_str(resp.name()), at(tb.name)),
        ("description", opt_str(resp.description()), at(tb.description)),
        ("game_mode", opt_str(resp.game_mode()), want_mode.clone()),
        ("game_version", opt_str(resp.game_version()), at(tb.game_version)),
        ("map", opt_str(resp.map()), at(tb.map)),
    ];
    for (n, got, want) in &strings {
        if got != want {
            fail(n, got.clone(), want.clone());
            return;
        }
    }
    let clamp = |v: Value| -> Value {
        if tb.mindustry {
            json!(v.as_i64().map(|x| x.max(0)).unwrap_or(0))
        } else {
            v
        }
    };
    let nums: [(&str, Value, Value); 3] = [
        ("players_maximum", json!(resp.players_maximum()), clamp(at(Some(tb.players_maximum)))),
        ("players_online", json!(resp.players_online()), clamp(at(Some(tb.players_online)))),
        ("players_bots", resp.players_bots().map(|b| json!(b)).unwrap_or(Value::Null), at(tb.players_bots)),
    ];
    for (n, got, want) in &nums {
        if got.as_i64() != want.as_i64() || got.is_null() != want.is_null() {
            fail(n, got.clone(), want.clone());
            return;
        }
    }
    let got_pw = resp.has_password().map(Value::Bool).unwrap_or(Value::Null);
    if got_pw != at(tb.has_password) {
        fail("has_password", got_pw, at(tb.has_password));
        return;
    }
    // players
    let want_players = at(tb.players);
    let got_players: Option<Vec<(String, Option<i32>, Value)>> = resp.players().map(|ps| {
        ps.iter()
            .map(|p| {
                let orig = serde_json::to_value(p.as_original()).unwrap_or(Value::Null);
                (p.name().to_string(), p.score(), orig)
            })
            .collect()
    });
    match (&got_players, want_players.as_array()) {
        (None, None) => {}
        (Some(g), Some(w)) => {
            if g.len() != w.len() {
                fail("players.len", json!(g.len()), json!(w.len()));
                return;
            }
            for ((name, score, orig), wp) in g.iter().zip(w.iter()) {
                if Some(name.as_str()) != wp[tb.player_fields.0].as_str() {
                    fail("players[#].name", json!(name), wp[tb.player_fields.0].clone());
                    return;
                }
                let want_score = tb.player_fields.1.map(|f| wp[f].clone()).unwrap_or(Value::Null);
                if score.map(|s| s as i64) != want_score.as_i64() {
                    fail("players[#].score", json!(score), want_score);
                    return;
                }
                // the original player is retrievable unchanged (variant tags stripped)
                let mut inner = orig.clone();
                for _ in 0 .. 2 {
                    let next = match &inner {
                        Value::Object(m) if m.len() == 1 && m.keys().next().map(|k| k.chars().next().map(|c| c.is_ascii_uppercase()).unwrap_or(false)).unwrap_or(false) => m.values().next().cloned(),
                        _ => None,
                    };
                    match next {
                        Some(x) if x.is_object() => inner = x,
                        _ => break,
                    }
                }
                if &inner != wp {
                    fail("players[#].as_original", inner, wp.clone());
                    return;
                }
            }
        }
        (g, w) => {
            fail("players presence", json!(g.is_some()), json!(w.is_some()));
            return;
        }
    }
    // as_json: exactly the accessor values
    let j = resp.as_json();
    let jv = serde_json::to_value(&j).unwrap_or(Value::Null);
    let want_json = json!({
        "name": strings[0].1, "description": strings[1].1, "game_mode": strings[2].1, "game_version": strings[3].1, "map": strings[4].1,
        "players_maximum": resp.players_maximum(), "players_online": resp.players_online(),
        "players_bots": resp.players_bots(), "has_password": resp.has_password(),
        "players": got_players.as_ref().map(|g| g.iter().map(|(n, s, _)| json!({"name": n, "score": s})).collect::<Vec<_>>()),
    });
    if jv != want_json {
        let path = crate::util::json_diff_path(&want_json, &jv).unwrap_or_default();
        fail(&format!("as_json{path}"), jv, want_json);
        return;
    }
    // as_original: the same value, unchanged
    let orig = serde_json::to_value(resp.as_original()).unwrap_or(Value::Null);
    let mut inner = orig;
    for _ in 0 .. 2 {
        let next = match &inner {
            Value::Object(m) if m.len() == 1 && m.keys().next().map(|k| k.chars().next().map(|c| c.is_ascii_uppercase()).unwrap_or(false)).unwrap_or(false) => m.values().next().cloned(),
            _ => None,
        };
        match next {
            Some(x) if x.is_object() => inner = x,
            _ => break,
        }
    }
    if inner != spec {
        let path = crate::util::json_diff_path(&spec, &inner).unwrap_or_default();
        fail(&format!("as_original{path}"), inner, spec.clone());
        return;
    }
    if !same_address {
        fail("as_original does not refer to the original value", Value::Null, Value::Null);
    }
}

macro_rules! addr {
    ($resp:expr, $pat:pat => $inner:expr) => {
        match $resp.as_original() {
            $pat => std::ptr::eq($inner as *const _ as *const u8, $resp as *const _ as *const u8),
            #[allow(unreachable_patterns)]
            _ => false,
        }
    };
}

pub struct C15;

impl Prop for C15 {
    type Case = Case;

    fn id(&self) -> &'static str { "C15" }

    fn rule(&self) -> String {
        "values of all 15 response types (and through them the 11 player types) are built from the reference models' generators (full-range numbers, arbitrary strings, optional \
         members present or absent, 0-255 players) without any parsing; for each value every accessor of the protocol-independent view is compared with the field that \
         RESPONSES.md and the types' documentation name for it (absent field => None), as_json() and its serde form must hold exactly the accessor values, every generic \
         player must give its name / score and unwrap to the original player, and as_original() must wrap the very same value (address and content). non-trivial = the \
         response has at least one player or an optional member; distinct = digest of the value"
            .into()
    }

    fn assumptions(&self) -> Vec<String> {
        vec![
            "Mindustry: players / player_limit are signed on the wire and shown as 0 when negative, the mode is the enum's lower-case name (as the type's unit test documents)".into(),
            "Minecraft Bedrock game_mode (an enum without documented text form) and the Unreal 2 bot list are not part of the generic view".into(),
            "Epic and Minetest need the tls feature, which cannot be built offline".into(),
        ]
    }

    fn random_cases(&self, tier: Tier) -> u64 { tier.pick(75_000, 7_500_000) }

    fn strategy(&self, _tier: Tier) -> BoxedStrategy<Case> {
        prop_oneof![
            (state(), 0u8..3, 0u8..3).prop_map(|(st, players, rules)| Case::Valve { st, players, rules }),
            gs1_state().prop_map(Case::Gs1),
            gs2_state().prop_map(Case::Gs2),
            gs3_state().prop_map(Case::Gs3),
            quake_state().prop_map(Case::Quake),
            u2_state().prop_map(Case::Unreal2),
            java_status().prop_map(Case::Java),
            (legacy_status(), 0u8..3).prop_map(|(s, g)| Case::Legacy(s, g)),
            bedrock_status().prop_map(Case::Bedrock),
            state_for(EngineSel::Ship).prop_map(Case::TheShip),
            ffow_state().prop_map(Case::Ffow),
            jc2m_state().prop_map(Case::Jc2m),
            savage2_state().prop_map(Case::Savage2),
            mindustry_state().prop_map(Case::Mindustry),
            eco_state().prop_map(Case::Eco),
        ]
        .boxed()
    }

    fn run(&self, case: &Case) -> Outcome {
        // a view accessor that panics for some response value does not "return the protocol-specific value"
        match crate::panics::catch(|| run_views(case)) {
            Ok(o) => o,
            Err(p) => {
                let mut o = Outcome::new();
                o.nontrivial = true;
                o.fail(format!("C15|panic in a view accessor|{}|{}", p.site(), p.class()), json!({"panic": p}));
                o
            }
        }
    }
}

fn run_views(case: &Case) -> Outcome {
    {
        let mut o = Outcome::new();
        match case {
            Case::Valve { st, players, rules } => {
                o.label("valve::Response");
                let g = GatheringSettings { players: crate::entries::toggle(*players), rules: crate::entries::toggle(*rules), check_app_id: false };
                let r = st.expected_response(&g);
                o.nontrivial = r.players.as_ref().map(|p| !p.is_empty()).unwrap_or(false) || r.info.extra_data.is_some();
                let same = addr!(&r, GenericResponse::Valve(x) => x);
                check("valve", &r, same, &mut o);
                if o.failure.is_none() {
                    if let Some(p) = r.players.as_ref().and_then(|p| p.first()) {
                        if !matches!(p.as_original(), GenericPlayer::Valve(q) if std::ptr::eq(q, p)) {
                            o.fail("C15|valve::ServerPlayer|as_original does not refer to the original value", json!({}));
                        }
                    }
                }
            }
            Case::Gs1(st) => {
                o.label("gamespy::one::Response");
                let r = st.expected();
                o.nontrivial = !r.players.is_empty();
                let same = addr!(&r, GenericResponse::GameSpy(gamespy::VersionedResponse::One(x)) => x);
                check("gs1", &r, same, &mut o);
            }
            Case::Gs2(st) => {
                o.label("gamespy::two::Response");
                let r = st.expected();
                o.nontrivial = !r.players.is_empty();
                let same = addr!(&r, GenericResponse::GameSpy(gamespy::VersionedResponse::Two(x)) => x);
                check("gs2", &r, same, &mut o);
            }
            Case::Gs3(st) => {
                o.label("gamespy::three::Response");
                let r = st.expected();
                o.nontrivial = !r.players.is_empty();
                let same = addr!(&r, GenericResponse::GameSpy(gamespy::VersionedResponse::Three(x)) => x);
                check("gs3", &r, same, &mut o);
            }
            Case::Quake(st) => {
                if st.version == 1 {
                    o.label("quake::Response<one::Player>");
                    let r = st.expected_one();
                    o.nontrivial = !r.players.is_empty();
                    let same = addr!(&r, GenericResponse::Quake(quake::VersionedResponse::One(x)) => x);
                    check("quake1", &r, same, &mut o);
                } else {
                    o.label("quake::Response<two::Player>");
                    let r = st.expected_two();
                    o.nontrivial = !r.players.is_empty();
                    let same = addr!(&r, GenericResponse::Quake(quake::VersionedResponse::TwoAndThree(x)) => x);
                    check("quake2", &r, same, &mut o);
                }
            }
            Case::Unreal2(st) => {
                o.label("unreal2::Response");
                let r = st.expected();
                o.nontrivial = !r.players.players.is_empty();
                let same = addr!(&r, GenericResponse::Unreal2(x) => x);
                check("unreal2", &r, same, &mut o);
            }
            Case::Java(st) => {
                o.label("minecraft::JavaResponse");
                let r = st.expected();
                o.nontrivial = r.players.is_some();
                let same = addr!(&r, GenericResponse::Minecraft(gamedig::games::minecraft::VersionedResponse::Java(x)) => x);
                check("java", &r, same, &mut o);
            }
            Case::Legacy(st, g) => {
                o.label("minecraft::JavaResponse(legacy)");
                let r = st.expected(crate::entries::legacy_group(*g));
                o.nontrivial = true;
                let same = addr!(&r, GenericResponse::Minecraft(gamedig::games::minecraft::VersionedResponse::Java(x)) => x);
                check("java", &r, same, &mut o);
            }
            Case::Bedrock(st) => {
                o.label("minecraft::BedrockResponse");
                let r = st.expected();
                o.nontrivial = r.map.is_some();
                let same = addr!(&r, GenericResponse::Minecraft(gamedig::games::minecraft::VersionedResponse::Bedrock(x)) => x);
                check("bedrock", &r, same, &mut o);
            }
            Case::TheShip(st) => {
                o.label("theship::Response");
                let g = GatheringSettings { players: crate::entries::toggle(2), rules: crate::entries::toggle(2), check_app_id: false };
                let v = st.expected_response(&g);
                match gamedig::games::theship::Response::new_from_valve_response(v) {
                    Ok(r) => {
                        o.nontrivial = !r.players.is_empty();
                        let same = addr!(&r, GenericResponse::TheShip(x) => x);
                        check("theship", &r, same, &mut o);
                    }
                    Err(e) => {
                        o.fail("C15|theship::Response|conversion of a complete response failed", json!({"error": format!("{:?}", e.kind)}));
                    }
                }
            }
            Case::Ffow(st) => {
                o.label("ffow::Response");
                let r = st.expected();
                o.nontrivial = true;
                let same = addr!(&r, GenericResponse::FFOW(x) => x);
                check("ffow", &r, same, &mut o);
            }
            Case::Jc2m(st) => {
                o.label("jc2m::Response");
                let r = st.expected();
                o.nontrivial = !r.players.is_empty();
                let same = addr!(&r, GenericResponse::JC2M(x) => x);
                check("jc2m", &r, same, &mut o);
            }
            Case::Savage2(st) => {
                o.label("savage2::Response");
                let r = st.expected();
                o.nontrivial = true;
                let same = addr!(&r, GenericResponse::Savage2(x) => x);
                check("savage2", &r, same, &mut o);
            }
            Case::Mindustry(st) => {
                o.label("mindustry::ServerData");
                let r = st.expected();
                o.nontrivial = r.mode_name.is_some() || r.players < 0;
                let same = addr!(&r, GenericResponse::Mindustry(x) => x);
                check("mindustry", &r, same, &mut o);
            }
            Case::Eco(st) => {
                o.label("eco::Response");
                let r = st.expected();
                o.nontrivial = !r.players.is_empty();
                let same = addr!(&r, GenericResponse::Eco(x) => x);
                check("eco", &r, same, &mut o);
            }
        }
        o
    }
}
