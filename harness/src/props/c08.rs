//! C08 — multi-datagram responses do not depend on arrival order.

use gamedig::protocols::gamespy::{one, three};
use gamedig::protocols::types::GatherToggle;
use gamedig::protocols::{unreal2, valve};
use proptest::prelude::*;
use serde::{Deserialize, Serialize};
use serde_json::json;
use std::net::SocketAddr;

use crate::models::gamespy::{gs1_state, gs3_state, DatagramServer, Gs1State, Gs3Server, Gs3State, GS1_REQUEST};
use crate::models::unreal2::{u2_state, U2Server, U2State};
use crate::models::valve::{state_for, A2sState, EngineSel, Framing, Kind, ValveServer};
use crate::props::c02::fit;
use crate::runner::{sample_one, Failure, Outcome, Prop, Tier};
use crate::util::{brief, diff_path, doc_ip};
use crate::wire::{render_log, run_scripted, Ended, Run};

#[derive(Debug, Clone, Serialize, Deserialize)]
pub enum Base {
    /// the section (0 info, 1 players, 2 rules) whose fragments are scheduled
    Valve { st: A2sState, section: u8 },
    Gs1(Gs1State),
    Gs3(Gs3State),
    /// 1 = rules list, 2 = players list
    Unreal2 { st: U2State, list: u8 },
}

#[derive(Debug, Clone, Serialize, Deserialize, PartialEq)]
pub enum Schedule {
    /// order[i] = index of the fragment delivered i-th
    Perm(Vec<u8>),
    /// in order, with fragment `frag` delivered an extra time before position `at`
    Dup { frag: u8, at: u8 },
    /// a permutation with one fragment delivered an extra time before position `at`
    PermDup { order: Vec<u8>, frag: u8, at: u8 },
}

#[derive(Debug, Clone, Serialize, Deserialize)]
pub struct Case {
    pub base: Base,
    pub schedule: Schedule,
}

fn apply(frags: &[Vec<u8>], s: &Schedule) -> Vec<Vec<u8>> {
    match s {
        Schedule::Perm(p) => p.iter().filter_map(|i| frags.get(*i as usize).cloned()).collect(),
        Schedule::Dup { frag, at } => {
            let mut v = frags.to_vec();
            if let Some(f) = frags.get(*frag as usize) {
                v.insert((*at as usize).min(v.len()), f.clone());
            }
            v
        }
        Schedule::PermDup { order, frag, at } => {
            let mut v: Vec<Vec<u8>> = order.iter().filter_map(|i| frags.get(*i as usize).cloned()).collect();
            if let Some(f) = frags.get(*frag as usize) {
                v.insert((*at as usize).min(v.len()), f.clone());
            }
            v
        }
    }
}

impl Base {
    pub fn fragments(&self) -> Option<Vec<Vec<u8>>> {
        match self {
            Base::Valve { st, section } => st.datagrams([Kind::Info, Kind::Players, Kind::Rules][*section as usize]),
            Base::Gs1(st) => Some(st.encode()),
            Base::Gs3(st) => Some(st.datagrams()),
            Base::Unreal2 { st, list } => Some(if *list == 1 { st.rule_datagrams() } else { st.player_datagrams() }),
        }
    }
    fn name(&self) -> &'static str {
        match self {
            Base::Valve { st, .. } => {
                if st.engine.is_goldsrc() {
                    "valve-goldsrc-split"
                } else {
                    "valve-source-split"
                }
            }
            Base::Gs1(_) => "gamespy1-parts",
            Base::Gs3(_) => "gamespy3-splitnum",
            Base::Unreal2 { .. } => "unreal2-list",
        }
    }
}

/// Result of one delivery, normalised for comparison.
enum Res {
    Ok(serde_json::Value),
    Err(String),
    Panic(crate::runner::Failure),
}

fn norm_u2(mut r: unreal2::Response) -> serde_json::Value {
    // Unreal 2 datagrams carry no sequence number: arrival order is the only order there is
    r.players.players.sort();
    r.players.bots.sort();
    for v in r.mutators_and_rules.rules.values_mut() {
        v.sort();
    }
    let mut j = serde_json::to_value(&r).unwrap_or(serde_json::Value::Null);
    if let Some(m) = j.pointer_mut("/mutators_and_rules/mutators").and_then(|x| x.as_array_mut()) {
        m.sort_by_key(|e| e.to_string());
    }
    j
}

fn res_of<T: serde::Serialize>(run: Run<T>, norm: impl FnOnce(T) -> serde_json::Value) -> (Res, Vec<String>) {
    let log = render_log(&run.log[.. run.log.len().min(40)]);
    let r = match run.ended {
        Ended::Ok(v) => Res::Ok(norm(v)),
        Ended::Err(k) => Res::Err(format!("{k:?}")),
        Ended::Panic(p) => {
            Res::Panic(Failure {
                signature: format!("C08|panic|{}|{}", p.site(), p.class()),
                detail: json!({"panic": p}),
            })
        }
    };
    (r, log)
}

fn deliver(base: &Base, frags: Vec<Vec<u8>>) -> Option<(Res, Vec<String>)> {
    let addr = SocketAddr::new(doc_ip(), 27015);
    Some(match base {
        Base::Valve { st, section } => {
            let mut server = ValveServer::from_state(st)?;
            match section {
                0 => server.info.datagrams = frags,
                1 => server.players.datagrams = frags,
                _ => server.rules.datagrams = frags,
            }
            let g = valve::GatheringSettings {
                players: GatherToggle::Enforce,
                rules: GatherToggle::Enforce,
                check_app_id: false,
            };
            let engine = st.engine.engine();
            res_of(run_scripted(Box::new(server), || valve::query(&addr, engine, Some(g), None)), |v| serde_json::to_value(&v).unwrap_or_default())
        }
        Base::Gs1(_) => {
            let server = DatagramServer {
                request: GS1_REQUEST.to_vec(),
                reply: frags,
            };
            res_of(run_scripted(Box::new(server), || one::query(&addr, None)), |v| serde_json::to_value(&v).unwrap_or_default())
        }
        Base::Gs3(st) => {
            let server = Gs3Server::new(st.challenge, [0xFF, 0xFF, 0xFF, 0x01], frags);
            res_of(run_scripted(Box::new(server), || three::query(&addr, None)), |v| serde_json::to_value(&v).unwrap_or_default())
        }
        Base::Unreal2 { st, list } => {
            let mut server = U2Server::from_state(st);
            if *list == 1 {
                server.rules = frags;
            } else {
                server.players = frags;
            }
            let g = unreal2::GatheringSettings {
                players: GatherToggle::Enforce,
                mutators_and_rules: GatherToggle::Enforce,
            };
            res_of(run_scripted(Box::new(server), || unreal2::query(&addr, &g, None)), norm_u2)
        }
    })
}

fn expected_json(base: &Base) -> serde_json::Value {
    match base {
        Base::Valve { st, .. } => {
            let g = valve::GatheringSettings {
                players: GatherToggle::Enforce,
                rules: GatherToggle::Enforce,
                check_app_id: false,
            };
            serde_json::to_value(st.expected_response(&g)).unwrap_or_default()
        }
        Base::Gs1(st) => serde_json::to_value(st.expected()).unwrap_or_default(),
        Base::Gs3(st) => serde_json::to_value(st.expected()).unwrap_or_default(),
        Base::Unreal2 { st, .. } => norm_u2(st.expected()),
    }
}

fn split_section(n: usize, compressed: bool, seed: u64) -> Framing {
    // n fragments: n-1 distinct interior cut points
    let mut cuts: Vec<u16> = (1 .. n).map(|k| ((k * 1000) / n) as u16 + ((seed >> (k * 3)) % 60) as u16).collect();
    cuts.sort();
    Framing::Split { cuts, compressed }
}

/// A base whose response has between 2 and 6 fragments.
fn base_strategy() -> BoxedStrategy<Base> {
    let valve = (
        prop_oneof![Just(EngineSel::SourceNone), Just(EngineSel::GoldSrc(false)), Just(EngineSel::Css), Just(EngineSel::Ship)],
        0u8 .. 3,
        2usize .. 7,
        prop::bool::weighted(0.2),
        any::<u64>(),
    )
        .prop_flat_map(|(engine, section, n, compressed, seed)| {
            state_for(engine).prop_map(move |mut st| {
                st.players.truncate(40);
                st.rules.truncate(40);
                // enough payload for n non-empty fragments
                while st.rules.len() < 8 {
                    let k = st.rules.len();
                    st.rules.push((format!("rule{k}"), format!("value {k}")));
                }
                while st.players.len() < 4 {
                    let mut p = sample_one(&crate::models::valve::player(), "C08-p", st.players.len() as u64);
                    p.name = format!("player{}", st.players.len());
                    st.players.push(p);
                }
                for s in [&mut st.t_info, &mut st.t_players, &mut st.t_rules] {
                    s.framing = Framing::Single;
                }
                let f = split_section(n, compressed && !engine.is_goldsrc(), seed);
                match section {
                    0 => st.t_info.framing = f,
                    1 => st.t_players.framing = f,
                    _ => st.t_rules.framing = f,
                }
                fit(&mut st);
                Base::Valve { st, section }
            })
        });
    let gs1 = (gs1_state(), 2usize .. 7).prop_map(|(mut st, parts)| {
        st.parts = parts;
        while st.extras.len() < 12 {
            let k = st.extras.len();
            st.extras.push((format!("extra{k}x"), format!("v{k}")));
        }
        Base::Gs1(st)
    });
    let gs3 = (gs3_state(), 100usize .. 400).prop_map(|(mut st, budget)| {
        st.packet_budget = budget;
        while st.players.len() < 6 {
            let k = st.players.len() as u32;
            st.players.push(crate::models::gamespy::Gs3Player { name: format!("p{k}"), score: k as i32, ping: 10, team: 1, deaths: k, pid: k, skill: k });
        }
        Base::Gs3(st)
    });
    let u2 = (u2_state(), 1u8 .. 3, 2usize .. 7).prop_map(|(mut st, list, n)| {
        while st.players.len() < 6 {
            let k = st.players.len() as u32;
            st.players.push(crate::models::unreal2::U2Player { id: 1000 + k, name: crate::models::unreal2::UStr::plain(&format!("pl{k}"), crate::models::unreal2::Enc::Latin1), ping: k, score: 3, stats_id: 0 });
        }
        while st.rules.len() < 6 {
            let k = st.rules.len();
            st.rules.push((crate::models::unreal2::UStr::plain(&format!("key{}", k % 3), crate::models::unreal2::Enc::Latin1), crate::models::unreal2::UStr::plain(&format!("val{k}"), crate::models::unreal2::Enc::Latin1)));
        }
        // ids must identify players for the order-free comparison
        for (i, p) in st.players.iter_mut().enumerate() {
            p.id = i as u32 * 7 + 1;
        }
        st.num_players = st.players.len() as u32;
        st.rule_datagrams = n;
        st.player_datagrams = n;
        Base::Unreal2 { st, list }
    });
    prop_oneof![4 => valve, 2 => gs1, 2 => gs3, 2 => u2].boxed()
}

fn permutations(n: usize) -> Vec<Vec<u8>> {
    fn rec(cur: &mut Vec<u8>, used: &mut Vec<bool>, n: usize, out: &mut Vec<Vec<u8>>) {
        if cur.len() == n {
            out.push(cur.clone());
            return;
        }
        for i in 0 .. n {
            if !used[i] {
                used[i] = true;
                cur.push(i as u8);
                rec(cur, used, n, out);
                cur.pop();
                used[i] = false;
            }
        }
    }
    let mut out = Vec::new();
    rec(&mut Vec::new(), &mut vec![false; n], n, &mut out);
    out
}

pub struct C08;

impl Prop for C08 {
    type Case = Case;

    fn id(&self) -> &'static str { "C08" }

    fn rule(&self) -> String {
        "bases = responses of the reference models that fragment into 2-6 datagrams (Valve Source split incl. bzip2-compressed and the size-less variant, GoldSrc split, \
         GameSpy 1 parts, GameSpy 3 splitnum packets, Unreal 2 rule and player lists). For every enumerated base ALL permutations of its fragments (n! <= 720) and every \
         single-fragment duplication at every position are delivered; random cases add further bases with random schedules, including a permutation combined with a duplication. Oracle (metamorphic, anchored): the in-order \
         result must equal the model's expected response, every permutation must give the same result as in-order (Unreal 2: modulo list order, it has no sequence \
         numbers), a duplication must give an error or the in-order result. All gather toggles are Enforce so that a failed section is an error, not an absent section. \
         non-trivial = the schedule is not the identity; distinct = digest of (base, schedule)"
            .into()
    }

    fn assumptions(&self) -> Vec<String> {
        vec![
            "loss of a fragment is not part of this property (C01/C10)".into(),
            "GameSpy 1 parts carry `queryid\\\\<id>.<n>` with n from 1 and `final` in the last part".into(),
        ]
    }

    fn random_cases(&self, tier: Tier) -> u64 { tier.pick(20_000, 1_000_000) }

    fn strategy(&self, _tier: Tier) -> BoxedStrategy<Case> {
        (base_strategy(), any::<prop::sample::Index>(), any::<prop::sample::Index>(), any::<u64>(), prop::bool::weighted(0.3))
            .prop_map(|(base, a, b, seed, dup)| {
                let n = base.fragments().map(|f| f.len()).unwrap_or(1).max(1);
                let schedule = if dup && seed % 2 == 0 {
                    Schedule::Dup { frag: a.index(n) as u8, at: b.index(n + 1) as u8 }
                } else if dup {
                    let mut p: Vec<u8> = (0 .. n.min(255) as u8).collect();
                    let mut s = seed;
                    for i in (1 .. p.len()).rev() {
                        s = s.wrapping_mul(6364136223846793005).wrapping_add(1442695040888963407);
                        p.swap(i, (s >> 33) as usize % (i + 1));
                    }
                    Schedule::PermDup { order: p, frag: a.index(n) as u8, at: b.index(n + 1) as u8 }
                } else {
                    let mut p: Vec<u8> = (0 .. n.min(255) as u8).collect();
                    let mut s = seed;
                    for i in (1 .. p.len()).rev() {
                        s = s.wrapping_mul(6364136223846793005).wrapping_add(1442695040888963407);
                        p.swap(i, (s >> 33) as usize % (i + 1));
                    }
                    Schedule::Perm(p)
                };
                Case { base, schedule }
            })
            .boxed()
    }

    fn enumerated<'a>(&'a self, tier: Tier, shard: usize, nshards: usize) -> Box<dyn Iterator<Item = Case> + 'a> {
        let nbases = tier.pick(300usize, 20_000);
        let strategy = base_strategy();
        let it = (0 .. nbases).filter(move |i| i % nshards == shard).flat_map(move |i| {
            let base = sample_one(&strategy, "C08-base", i as u64);
            let n = base.fragments().map(|f| f.len()).unwrap_or(0);
            let mut cases = Vec::new();
            if (2 ..= 6).contains(&n) {
                for p in permutations(n) {
                    cases.push(Case { base: base.clone(), schedule: Schedule::Perm(p) });
                }
                for frag in 0 .. n {
                    for at in 0 ..= n {
                        cases.push(Case { base: base.clone(), schedule: Schedule::Dup { frag: frag as u8, at: at as u8 } });
                    }
                }
            }
            cases
        });
        Box::new(it)
    }

    fn exhaustive_subspaces(&self, tier: Tier) -> Vec<String> {
        vec![format!("for each of {} sampled bases with 2-6 fragments: all n! arrival orders and all n*(n+1) single duplications", tier.pick(300, 20_000))]
    }

    fn run(&self, case: &Case) -> Outcome {
        let mut o = Outcome::new();
        let Some(frags) = case.base.fragments() else {
            o.excluded = Some("compressed class skipped: python3 bz2 co-process unavailable".into());
            return o;
        };
        let n = frags.len();
        let name = case.base.name();
        o.label(name);
        o.label(format!("fragments={}", n.min(7)));
        let identity = matches!(&case.schedule, Schedule::Perm(p) if p.iter().enumerate().all(|(i, x)| *x as usize == i));
        o.label(match &case.schedule {
            Schedule::Perm(_) if identity => "in-order",
            Schedule::Perm(_) => "permutation",
            Schedule::Dup { .. } => "duplication",
            Schedule::PermDup { .. } => "permutation+duplication",
        });
        if let Base::Valve { st, section } = &case.base {
            let sec = [&st.t_info, &st.t_players, &st.t_rules][*section as usize];
            if matches!(sec.framing, Framing::Split { compressed: true, .. }) {
                o.label("valve-compressed");
            }
        }
        o.nontrivial = !identity && n >= 2;
        // in-order run, anchored to the model
        let Some((base_res, base_log)) = deliver(&case.base, frags.clone()) else { return o };
        let expected = expected_json(&case.base);
        let in_order = match base_res {
            Res::Ok(v) => v,
            Res::Err(e) => {
                o.fail(format!("C08|{name}|in-order delivery fails|{e}"), json!({"wire": base_log}));
                return o;
            }
            Res::Panic(f) => {
                o.failure = Some(f);
                return o;
            }
        };
        if in_order != expected {
            let path = crate::util::json_diff_path(&expected, &in_order).unwrap_or_default();
            o.fail(format!("C08|{name}|in-order result differs from the model|{path}"), json!({"expected": brief(&expected), "observed": brief(&in_order), "wire": base_log}));
            return o;
        }
        if identity {
            return o;
        }
        let Some((res, log)) = deliver(&case.base, apply(&frags, &case.schedule)) else { return o };
        match (&case.schedule, res) {
            (_, Res::Panic(f)) => o.failure = Some(f),
            (Schedule::Perm(p), Res::Err(e)) => {
                o.fail(format!("C08|{name}|permutation|error {e}"), json!({"order": p, "fragments": n, "wire": log}));
            }
            (Schedule::Perm(p), Res::Ok(v)) => {
                if v != in_order {
                    let path = diff_path(&in_order, &v, &[".rules", "unused_entries"]);
                    o.fail(format!("C08|{name}|permutation|result differs|{path}"), json!({"order": p, "fragments": n, "in_order": brief(&in_order), "observed": brief(&v), "wire": log}));
                }
            }
            (Schedule::Dup { .. } | Schedule::PermDup { .. }, Res::Err(_)) => {}
            (Schedule::Dup { frag, at } | Schedule::PermDup { frag, at, .. }, Res::Ok(v)) => {
                if v != in_order {
                    let path = diff_path(&in_order, &v, &[".rules", "unused_entries"]);
                    o.fail(format!("C08|{name}|duplication|successful but different|{path}"), json!({"frag": frag, "at": at, "fragments": n, "in_order": brief(&in_order), "observed": brief(&v), "wire": log}));
                }
            }
        }
        o
    }
}
