//! C11 — gather toggles and the app-id check behave as documented.

use gamedig::GDErrorKind;
use proptest::prelude::*;
use serde::{Deserialize, Serialize};
use serde_json::{json, Value};

use crate::entries::{Entry, Family};
use crate::models::family::FamState;
use crate::models::fault::{Fault, Faulty};
use crate::models::valve::EngineSel;
use crate::props::c02::set_appid;
use crate::props::c10::state_for_entry;
use crate::runner::{Outcome, Prop, Tier};
use crate::util::{brief, doc_ip, normalise_sets};
use crate::wire::{render_log, run_scripted, Ended, Ev};

/// What a section's server side does.
#[derive(Debug, Clone, Copy, PartialEq, Eq, Hash, Serialize, Deserialize)]
pub enum Sec {
    Valid,
    Silent,
    Malformed,
    /// answers the first request with a challenge, then stays silent
    ChallengeThenSilent,
    /// a reply of several datagrams whose last datagram is malformed (Unreal 2 lists); replies of one datagram: as Malformed
    MalformedLater,
}

const SECS: [Sec; 4] = [Sec::Valid, Sec::Silent, Sec::Malformed, Sec::ChallengeThenSilent];

/// Relation of the server's app id to what the engine expects.
#[derive(Debug, Clone, Copy, PartialEq, Eq, Hash, Serialize, Deserialize)]
pub enum AppRel {
    Main,
    Dedicated,
    Other,
    /// engine without expectation (Source(None)), 1 = GoldSrc
    NoExpectation(u8),
}

#[derive(Debug, Clone, Serialize, Deserialize)]
pub enum Case {
    Valve { players: u8, rules: u8, check: bool, rel: AppRel, sec_players: Sec, sec_rules: Sec, via_generic: bool, idx: u64 },
    Unreal2 { players: u8, rules: u8, sec_players: Sec, sec_rules: Sec, via_generic: bool, idx: u64 },
    /// the app-id decision alone, over arbitrary expected ids and reported ids
    AppId { main: u32, dedicated: Option<u32>, reported: u32, check: bool, idx: u64 },
}

/// Expected / reported ids that change how the reply is parsed (The Ship, CS:S, RoR2) are kept out of the app-id grid.
fn plain_id(x: u32) -> u32 { if [2400, 240, 632_360].contains(&x) { x + 1 } else { x & 0xFF_FFFF } }

fn appid_edges(main: u32, dedicated: Option<u32>) -> Vec<u32> {
    let mut v = vec![0, 1, main, main.wrapping_sub(1), main + 1, main & 0xFFFF, main ^ 0x1_0000, main >> 8, 0xFFFF, 0x1_0000, 0xFF_FFFF];
    if let Some(d) = dedicated {
        v.extend([d, d.wrapping_sub(1), d + 1, d & 0xFFFF, d ^ 0x1_0000]);
    }
    let mut v: Vec<u32> = v.into_iter().map(|x| x & 0xFF_FFFF).filter(|x| ![2400, 240, 632_360].contains(x)).collect();
    v.sort();
    v.dedup();
    v
}

pub struct C11;

fn wrap(inner: Box<dyn crate::wire::Responder>, fam: Family, unit: u8, sec: Sec) -> Box<dyn crate::wire::Responder> {
    let (fault, step) = match sec {
        Sec::Valid => return inner,
        Sec::Silent => (Fault::Silent, 0),
        Sec::Malformed => (Fault::Malformed, 0),
        Sec::ChallengeThenSilent => (Fault::Silent, 1),
        Sec::MalformedLater => (Fault::Malformed, 0),
    };
    let (mut f, _log) = Faulty::new(inner, fam, unit, step, vec![fault; 8]);
    if sec == Sec::MalformedLater {
        f.mangle = 10;
    }
    Box::new(f)
}

fn count_requests(log: &[Ev], fam: Family, unit: u8) -> usize {
    log.iter()
        .filter(|e| {
            match e {
                Ev::Send { data, .. } => crate::models::fault::unit_of(fam, gamedig::verif_hook::Proto::Udp, data).map(|(u, _)| u == unit).unwrap_or(false),
                _ => false,
            }
        })
        .count()
}

impl Prop for C11 {
    fn level(&self) -> &'static str { "fault_enumeration" }

    type Case = Case;

    fn id(&self) -> &'static str { "C11" }

    fn rule(&self) -> String {
        "exhaustive matrix. Valve: 9 toggle pairs (players, rules in Skip/Try/Enforce) x section outcomes {valid, silent, malformed, challenge-then-silent}^2 x app-id relation \
         {main id, dedicated id, other id, no expectation (Source(None)), GoldSrc} x check on/off x {valve::query, generic dispatch with ExtraRequestSettings} x several \
         server states. Unreal 2: 9 toggle pairs x {valid, silent, malformed}^2 x both call paths. Section outcomes are injected by the fault wrapper around the valid \
         reference server. Oracle, evaluated in request order: Skip => no request of that kind on the wire and the section absent; Try + failure => section absent, rest of \
         the response equal to the fault-free response; Enforce + failure => the query fails (PacketReceive for silence, a parse-class error for a malformed reply) and no \
         later section is requested; app id: BadGame iff check on and an expectation exists and the id is neither the main nor the dedicated one, decided before any \
         players / rules request; an additional app-id grid draws arbitrary (main, dedicated) expectations and reported ids from the edge set around them (0, 1, ±1, same low 16 bits, bit 16 flipped, 16/24-bit limits) and at random. non-trivial = a non-valid outcome or a non-default toggle; distinct = digest of the case"
            .into()
    }

    fn assumptions(&self) -> Vec<String> {
        vec![
            "retries are 0; the info section always answers".into(),
            "Unreal 2: an absent section is the empty default (no mutators/rules, no players)".into(),
        ]
    }

    fn random_cases(&self, tier: Tier) -> u64 { tier.pick(3000, 200_000) }

    fn strategy(&self, _tier: Tier) -> BoxedStrategy<Case> {
        // random expected ids; the reported id is drawn from the edge set around them or at random
        (0u32 ..= 0xFF_FFFF, proptest::option::of(0u32 ..= 0xFF_FFFF), any::<proptest::sample::Index>(), 0u32 ..= 0xFF_FFFF, 0u8 .. 4, any::<bool>(), 0u64 .. 64)
            .prop_map(|(main, dedicated, pick, random, how, check, idx)| {
                let main = plain_id(main);
                let dedicated = dedicated.map(plain_id).filter(|d| *d != main);
                let edges = appid_edges(main, dedicated);
                let reported = if how == 0 { plain_id(random) } else { edges[pick.index(edges.len())] };
                Case::AppId { main, dedicated, reported, check, idx }
            })
            .boxed()
    }

    fn enumerated<'a>(&'a self, tier: Tier, shard: usize, nshards: usize) -> Box<dyn Iterator<Item = Case> + 'a> {
        let nstates = tier.pick(4u64, 200);
        let mut v = Vec::new();
        let rels = [AppRel::Main, AppRel::Dedicated, AppRel::Other, AppRel::NoExpectation(0), AppRel::NoExpectation(1)];
        for players in 0u8 .. 3 {
            for rules in 0u8 .. 3 {
                for sp in SECS {
                    for sr in SECS {
                        for rel in rels {
                            for check in [true, false] {
                                for via_generic in [false, true] {
                                    for idx in 0 .. nstates {
                                        v.push(Case::Valve { players, rules, check, rel, sec_players: sp, sec_rules: sr, via_generic, idx });
                                    }
                                }
                            }
                        }
                    }
                }
                for sp in [Sec::Valid, Sec::Silent, Sec::Malformed, Sec::MalformedLater] {
                    for sr in [Sec::Valid, Sec::Silent, Sec::Malformed, Sec::MalformedLater] {
                        for via_generic in [false, true] {
                            for idx in 0 .. nstates * 4 {
                                v.push(Case::Unreal2 { players, rules, sec_players: sp, sec_rules: sr, via_generic, idx });
                            }
                        }
                    }
                }
            }
        }
        let mut k = 0u64;
        for main in [1u32, 440, 0xFFFF, 0x1_0000, 736_590, 0xFF_FFFF] {
            for dedicated in [None, Some(0u32), Some(1), Some(950_900), Some(main ^ 0x1_0000), Some(main & 0xFFFF)] {
                if dedicated == Some(main) {
                    continue;
                }
                for reported in appid_edges(main, dedicated) {
                    for check in [true, false] {
                        k += 1;
                        v.push(Case::AppId { main, dedicated, reported, check, idx: k % nstates.max(8) });
                    }
                }
            }
        }
        Box::new(v.into_iter().enumerate().filter(move |(i, _)| i % nshards == shard).map(|(_, c)| c))
    }

    fn exhaustive_subspaces(&self, tier: Tier) -> Vec<String> {
        vec![format!(
            "Valve: 9 toggle pairs x 16 outcome pairs x 5 app-id relations x check on/off x 2 call paths x {} states; Unreal 2: 9 x 9 x 2 call paths x {} states; app-id grid: 6 main ids x 6 dedicated choices x edge set of reported ids x check on/off",
            tier.pick(4, 200),
            tier.pick(16, 800)
        )]
    }

    fn run(&self, case: &Case) -> Outcome {
        let mut o = Outcome::new();
        let ip = doc_ip();
        match case {
            Case::Valve { players, rules, check, rel, sec_players, sec_rules, via_generic, idx } => {
                // engine and the app id the server reports
                let (engine, appid) = match rel {
                    AppRel::Main => (EngineSel::Source(736_590, Some(950_900)), 736_590u32),
                    AppRel::Dedicated => (EngineSel::Source(736_590, Some(950_900)), 950_900),
                    AppRel::Other => (EngineSel::Source(736_590, Some(950_900)), 440),
                    AppRel::NoExpectation(0) => (EngineSel::SourceNone, 12345),
                    AppRel::NoExpectation(_) => (EngineSel::GoldSrc(false), 70),
                };
                let entry = if *via_generic {
                    // "ohd" is the table game with a dedicated id; the others through games without expectation
                    let game = match rel {
                        AppRel::NoExpectation(1) => "counterstrike",
                        AppRel::NoExpectation(_) => "",
                        _ => "ohd",
                    };
                    if game.is_empty() {
                        // no table game has Source(None): use the protocol function instead
                        Entry::Valve { engine, players: *players, rules: *rules, check: *check }
                    } else {
                        Entry::Generic { game: game.into(), extra: Some((*players, *rules, *check)) }
                    }
                } else {
                    Entry::Valve { engine, players: *players, rules: *rules, check: *check }
                };
                let fam = Family::Valve(engine);
                let proto_entry = Entry::Valve { engine, players: 2, rules: 2, check: false };
                let mut st = state_for_entry(&proto_entry, *idx);
                if let FamState::Valve(v) = &mut st {
                    set_appid(v, appid);
                }
                o.label(format!("valve toggles={players}{rules}"));
                o.label(format!("valve outcomes={sec_players:?}/{sec_rules:?}"));
                o.label(format!("app-id={rel:?} check={check}"));
                if *via_generic { o.label("via-extra-settings"); }
                o.nontrivial = *sec_players != Sec::Valid || *sec_rules != Sec::Valid || (*players, *rules) != (1, 1) || !matches!(rel, AppRel::Main);
                // fault-free full response (both sections enforced, no check)
                let base = run_scripted(st.responder(), || proto_entry.call_json(&ip, 27015, 0));
                let Ended::Ok(full) = &base.ended else {
                    o.fail(format!("C11|valve::query|fault-free query fails|{}", base.ended.kind_str()), json!({}));
                    return o;
                };
                let server = wrap(wrap(st.responder(), fam, 1, *sec_players), fam, 2, *sec_rules);
                let run = run_scripted(server, || entry.call_json(&ip, 27015, 0));
                // ---- expected, in request order
                let expectation = matches!(rel, AppRel::Main | AppRel::Dedicated | AppRel::Other);
                let bad_game = *check && expectation && *rel == AppRel::Other;
                let mut want_err: Option<&str> = None; // "BadGame" | "timeout" | "parse"
                let mut want_players_req = false;
                let mut want_rules_req = false;
                let mut players_present = false;
                let mut rules_present = false;
                if bad_game {
                    want_err = Some("BadGame");
                } else {
                    for (tog, sec, is_players) in [(*players, *sec_players, true), (*rules, *sec_rules, false)] {
                        if want_err.is_some() || tog == 0 {
                            continue;
                        }
                        if is_players { want_players_req = true } else { want_rules_req = true }
                        match sec {
                            Sec::Valid => {
                                if is_players { players_present = true } else { rules_present = true }
                            }
                            failing => {
                                if tog == 2 {
                                    want_err = Some(if failing == Sec::Malformed || failing == Sec::MalformedLater { "parse" } else { "timeout" });
                                }
                            }
                        }
                    }
                }
                let sigbase = if *via_generic { "games::query+extra[Valve]" } else { "valve::query" };
                let detail = |extra: Value| json!({"case": format!("{case:?}"), "result": run.ended.kind_str(), "info": extra, "wire": render_log(&run.log[.. run.log.len().min(30)])});
                // requests on the wire
                let (np, nr) = (count_requests(&run.log, fam, 1), count_requests(&run.log, fam, 2));
                if (np > 0) != want_players_req {
                    o.fail(format!("C11|{sigbase}|players request {}", if np > 0 { "sent but must not be" } else { "missing" }), detail(json!({"players_requests": np})));
                    return o;
                }
                if (nr > 0) != want_rules_req {
                    o.fail(format!("C11|{sigbase}|rules request {}", if nr > 0 { "sent but must not be" } else { "missing" }), detail(json!({"rules_requests": nr})));
                    return o;
                }
                match (want_err, &run.ended) {
                    (Some("BadGame"), Ended::Err(GDErrorKind::BadGame)) => {}
                    (Some("timeout"), Ended::Err(GDErrorKind::PacketReceive)) => {}
                    (Some("parse"), Ended::Err(k)) if *k != GDErrorKind::PacketReceive && *k != GDErrorKind::PacketSend && *k != GDErrorKind::BadGame => {}
                    (Some(w), other) => {
                        o.fail(format!("C11|{sigbase}|expected {w} failure|{}", other.kind_str()), detail(json!({})));
                    }
                    (None, Ended::Ok(got)) => {
                        let mut want = full.clone();
                        // the generic dispatch wraps the response in its variant
                        let (got_inner, want_inner) = match (got.get("Valve"), *via_generic && matches!(entry, Entry::Generic { .. })) {
                            (Some(g), true) => (g.clone(), &mut want),
                            _ => (got.clone(), &mut want),
                        };
                        if !players_present {
                            want_inner["players"] = Value::Null;
                        }
                        if !rules_present {
                            want_inner["rules"] = Value::Null;
                        }
                        if got_inner != *want_inner {
                            let path = crate::util::json_diff_path(want_inner, &got_inner).unwrap_or_default();
                            o.fail(format!("C11|{sigbase}|response differs|{path}"), detail(json!({"expected": brief(want_inner), "observed": brief(&got_inner)})));
                        }
                    }
                    (None, other) => {
                        o.fail(format!("C11|{sigbase}|query must succeed|{}", other.kind_str()), detail(json!({})));
                    }
                }
            }
            Case::AppId { main, dedicated, reported, check, idx } => {
                let engine = EngineSel::Source(*main, *dedicated);
                let entry = Entry::Valve { engine, players: 1, rules: 1, check: *check };
                let mut st = state_for_entry(&entry, *idx);
                if let FamState::Valve(v) = &mut st {
                    set_appid(v, *reported);
                }
                let expected_id = *reported == *main || Some(*reported) == *dedicated;
                o.label(format!(
                    "app-id grid: {} check={check}",
                    if *reported == *main { "main" } else if expected_id { "dedicated" } else if *reported == 0 { "zero" } else if *reported & 0xFFFF == *main & 0xFFFF { "same low 16 bits" } else { "other" }
                ));
                o.label(if dedicated.is_some() { "app-id grid: with dedicated id" } else { "app-id grid: main id only" });
                o.nontrivial = !(*reported == *main);
                let run = run_scripted(st.responder(), || entry.call_json(&ip, 27015, 0));
                let detail = || json!({"case": format!("{case:?}"), "result": run.ended.kind_str(), "wire": render_log(&run.log[.. run.log.len().min(12)])});
                match (&run.ended, *check && !expected_id) {
                    (Ended::Err(GDErrorKind::BadGame), true) => {
                        let fam = Family::Valve(engine);
                        if count_requests(&run.log, fam, 1) + count_requests(&run.log, fam, 2) > 0 {
                            o.fail("C11|valve::query|app-id grid|section requested after a failed app-id check", detail());
                        }
                    }
                    (other, true) => {
                        o.fail(format!("C11|valve::query|app-id grid|expected BadGame failure|{}", other.kind_str()), detail());
                    }
                    (Ended::Ok(got), false) => {
                        if got["info"]["appid"] != json!(*reported) {
                            o.fail("C11|valve::query|app-id grid|reported id not in the response", detail());
                        }
                    }
                    (other, false) => {
                        o.fail(format!("C11|valve::query|app-id grid|query must succeed|{}", other.kind_str()), detail());
                    }
                }
            }
            Case::Unreal2 { players, rules, sec_players, sec_rules, via_generic, idx } => {
                let fam = Family::Unreal2;
                let entry = if *via_generic {
                    Entry::Generic { game: "killingfloor".into(), extra: Some((*players, *rules, true)) }
                } else {
                    Entry::Unreal2 { players: *players, rules: *rules }
                };
                let proto_entry = Entry::Unreal2 { players: 2, rules: 2 };
                let st = state_for_entry(&proto_entry, *idx);
                o.label(format!("unreal2 toggles={players}{rules}"));
                o.label(format!("unreal2 outcomes={sec_players:?}/{sec_rules:?}"));
                if *via_generic { o.label("via-extra-settings"); }
                o.nontrivial = *sec_players != Sec::Valid || *sec_rules != Sec::Valid || (*players, *rules) != (1, 2);
                let base = run_scripted(st.responder(), || proto_entry.call_json(&ip, 7708, 0));
                let Ended::Ok(full) = &base.ended else {
                    o.fail(format!("C11|unreal2::query|fault-free query fails|{}", base.ended.kind_str()), json!({}));
                    return o;
                };
                // units: 1 = rules, 2 = players
                let server = wrap(wrap(st.responder(), fam, 1, *sec_rules), fam, 2, *sec_players);
                let run = run_scripted(server, || entry.call_json(&ip, 7708, 0));
                let mut want_err: Option<&str> = None;
                let (mut want_rules_req, mut want_players_req, mut rules_present, mut players_present) = (false, false, false, false);
                // request order: info, rules, players
                for (tog, sec, is_players) in [(*rules, *sec_rules, false), (*players, *sec_players, true)] {
                    if want_err.is_some() || tog == 0 {
                        continue;
                    }
                    if is_players { want_players_req = true } else { want_rules_req = true }
                    match sec {
                        Sec::Valid => {
                            if is_players { players_present = true } else { rules_present = true }
                        }
                        failing => {
                            if tog == 2 {
                                want_err = Some(if failing == Sec::Malformed || failing == Sec::MalformedLater { "parse" } else { "timeout" });
                            }
                        }
                    }
                }
                let sigbase = if *via_generic { "games::query+extra[Unreal2]" } else { "unreal2::query" };
                let detail = |extra: Value| json!({"case": format!("{case:?}"), "result": run.ended.kind_str(), "info": extra, "wire": render_log(&run.log[.. run.log.len().min(30)])});
                let (nr, np) = (count_requests(&run.log, fam, 1), count_requests(&run.log, fam, 2));
                if (nr > 0) != want_rules_req {
                    o.fail(format!("C11|{sigbase}|rules request {}", if nr > 0 { "sent but must not be" } else { "missing" }), detail(json!({})));
                    return o;
                }
                if (np > 0) != want_players_req {
                    o.fail(format!("C11|{sigbase}|players request {}", if np > 0 { "sent but must not be" } else { "missing" }), detail(json!({})));
                    return o;
                }
                match (want_err, &run.ended) {
                    (Some("timeout"), Ended::Err(GDErrorKind::PacketReceive)) => {}
                    (Some("parse"), Ended::Err(k)) if *k != GDErrorKind::PacketReceive && *k != GDErrorKind::PacketSend => {}
                    (Some(w), other) => {
                        o.fail(format!("C11|{sigbase}|expected {w} failure|{}", other.kind_str()), detail(json!({})));
                    }
                    (None, Ended::Ok(got)) => {
                        let mut want = full.clone();
                        let got_inner = match got.get("Unreal2") {
                            Some(g) if *via_generic => g.clone(),
                            _ => got.clone(),
                        };
                        if !rules_present {
                            want["mutators_and_rules"] = json!({"mutators": [], "rules": {}});
                            // the password flag is derived from the GamePassword rule
                            want["server_info"]["password"] = Value::Bool(false);
                        }
                        if !players_present {
                            want["players"] = json!({"players": [], "bots": []});
                        }
                        let mut g2 = got_inner.clone();
                        normalise_sets(&mut g2);
                        if g2 != want {
                            let path = crate::util::json_diff_path(&want, &g2).unwrap_or_default();
                            o.fail(format!("C11|{sigbase}|response differs|{path}"), detail(json!({"expected": brief(&want), "observed": brief(&g2)})));
                        }
                    }
                    (None, other) => {
                        o.fail(format!("C11|{sigbase}|query must succeed|{}", other.kind_str()), detail(json!({})));
                    }
                }
            }
        }
        o
    }
}
