//! Counting global allocator: per-thread counters, armed only around a query.

use std::alloc::{GlobalAlloc, Layout, System};
use std::cell::Cell;

pub struct Counting;

thread_local! {
    static ARMED: Cell<bool> = const { Cell::new(false) };
    static LIVE: Cell<isize> = const { Cell::new(0) };
    static PEAK: Cell<isize> = const { Cell::new(0) };
    static MAXREQ: Cell<usize> = const { Cell::new(0) };
    static COUNT: Cell<usize> = const { Cell::new(0) };
    static TOTAL: Cell<usize> = const { Cell::new(0) };
}

/// Requests of at least this many bytes get their call site recorded (C13's single-request cap).
pub const SITE_THRESHOLD: usize = 16 << 20;

thread_local! {
    static SITE: std::cell::RefCell<Option<std::backtrace::Backtrace>> = const { std::cell::RefCell::new(None) };
}

#[cold]
fn capture_site() {
    // capturing allocates: stop counting while we do it
    let _ = ARMED.try_with(|a| a.set(false));
    let _ = SITE.try_with(|s| {
        if let Ok(mut g) = s.try_borrow_mut() {
            if g.is_none() {
                *g = Some(std::backtrace::Backtrace::force_capture());
            }
        }
    });
    let _ = ARMED.try_with(|a| a.set(true));
}

/// First `gamedig::` frame of the recorded oversized request, if any.
pub fn take_site() -> Option<String> {
    let bt = SITE.with(|s| s.borrow_mut().take())?;
    let text = format!("{bt}");
    for line in text.lines() {
        let l = line.trim();
        if let Some(pos) = l.find(": ") {
            let f = &l[pos + 2 ..];
            if (f.starts_with("gamedig::") || f.starts_with("<gamedig::")) && !f.contains("verif_hook") {
                let f = match f.rfind("::h") {
                    Some(i) if f.len() - i == 19 => &f[.. i],
                    _ => f,
                };
                return Some(f.to_string());
            }
        }
    }
    Some("<no gamedig frame>".into())
}

#[inline]
fn on_alloc(size: usize) {
    let _ = ARMED.try_with(|a| {
        if a.get() {
            if size >= SITE_THRESHOLD {
                capture_site();
            }
            let _ = LIVE.try_with(|l| {
                let v = l.get() + size as isize;
                l.set(v);
                let _ = PEAK.try_with(|p| {
                    if v > p.get() {
                        p.set(v)
                    }
                });
            });
            let _ = MAXREQ.try_with(|m| {
                if size > m.get() {
                    m.set(size)
                }
            });
            let _ = COUNT.try_with(|c| c.set(c.get() + 1));
            let _ = TOTAL.try_with(|c| c.set(c.get().wrapping_add(size)));
        }
    });
}

#[inline]
fn on_dealloc(size: usize) {
    let _ = ARMED.try_with(|a| {
        if a.get() {
            let _ = LIVE.try_with(|l| l.set(l.get() - size as isize));
        }
    });
}

/// Requests of at least this size are served by an anonymous, not reserved mapping: an absurd
/// reservation (the defect class C13 looks for) then costs address space only, is recorded, and
/// does not abort the process the way a failed `malloc` would.
pub const BIG: usize = 256 << 20;

unsafe fn big_alloc(size: usize) -> *mut u8 {
    let p = libc::mmap(
        std::ptr::null_mut(),
        size,
        libc::PROT_READ | libc::PROT_WRITE,
        libc::MAP_PRIVATE | libc::MAP_ANONYMOUS | libc::MAP_NORESERVE,
        -1,
        0,
    );
    if p == libc::MAP_FAILED {
        std::ptr::null_mut()
    } else {
        p as *mut u8
    }
}

unsafe impl GlobalAlloc for Counting {
    unsafe fn alloc(&self, layout: Layout) -> *mut u8 {
        on_alloc(layout.size());
        if layout.size() >= BIG {
            return big_alloc(layout.size());
        }
        System.alloc(layout)
    }

    unsafe fn alloc_zeroed(&self, layout: Layout) -> *mut u8 {
        on_alloc(layout.size());
        if layout.size() >= BIG {
            return big_alloc(layout.size());
        }
        System.alloc_zeroed(layout)
    }

    unsafe fn dealloc(&self, ptr: *mut u8, layout: Layout) {
        on_dealloc(layout.size());
        if layout.size() >= BIG {
            libc::munmap(ptr as *mut libc::c_void, layout.size());
            return;
        }
        System.dealloc(ptr, layout)
    }

    unsafe fn realloc(&self, ptr: *mut u8, layout: Layout, new_size: usize) -> *mut u8 {
        if layout.size() >= BIG || new_size >= BIG {
            let new_layout = Layout::from_size_align_unchecked(new_size, layout.align());
            let np = self.alloc(new_layout);
            if !np.is_null() {
                std::ptr::copy_nonoverlapping(ptr, np, layout.size().min(new_size));
                self.dealloc(ptr, layout);
            }
            return np;
        }
        on_dealloc(layout.size());
        on_alloc(new_size);
        System.realloc(ptr, layout, new_size)
    }
}

#[derive(Debug, Clone, Copy, Default, serde::Serialize)]
pub struct AllocStats {
    /// Peak of (bytes allocated - bytes freed) since arming.
    pub peak_live: usize,
    /// Largest single allocation request.
    pub max_request: usize,
    /// Number of allocation requests.
    pub requests: usize,
    /// Sum of all requested bytes.
    pub total: usize,
}

/// Reset counters and start counting on this thread.
pub fn arm() {
    SITE.with(|s| *s.borrow_mut() = None);
    LIVE.with(|c| c.set(0));
    PEAK.with(|c| c.set(0));
    MAXREQ.with(|c| c.set(0));
    COUNT.with(|c| c.set(0));
    TOTAL.with(|c| c.set(0));
    ARMED.with(|c| c.set(true));
}

/// Stop counting on this thread and return the counters.
pub fn disarm() -> AllocStats {
    ARMED.with(|c| c.set(false));
    AllocStats {
        peak_live: PEAK.with(|c| c.get()).max(0) as usize,
        max_request: MAXREQ.with(|c| c.get()),
        requests: COUNT.with(|c| c.get()),
        total: TOTAL.with(|c| c.get()),
    }
}
