//! A strict XML well-formedness checker (XML 1.0 or 1.1 rules according to the version the document declares;
//! no declaration = 1.0) for the subset the CLI emits (declaration, elements
//! without attributes, character data with predefined entities / character references), producing a tree.

#[derive(Debug, Clone, PartialEq)]
pub enum Node {
    Element { name: String, key: Option<String>, children: Vec<Node> },
    Text(String),
}

fn is_name_start(c: char) -> bool {
    matches!(c, ':' | 'A'..='Z' | '_' | 'a'..='z' | '\u{C0}'..='\u{D6}' | '\u{D8}'..='\u{F6}' | '\u{F8}'..='\u{2FF}' | '\u{370}'..='\u{37D}' | '\u{37F}'..='\u{1FFF}'
        | '\u{200C}'..='\u{200D}' | '\u{2070}'..='\u{218F}' | '\u{2C00}'..='\u{2FEF}' | '\u{3001}'..='\u{D7FF}' | '\u{F900}'..='\u{FDCF}' | '\u{FDF0}'..='\u{FFFD}' | '\u{10000}'..='\u{EFFFF}')
}

fn is_name_char(c: char) -> bool { is_name_start(c) || matches!(c, '-' | '.' | '0'..='9' | '\u{B7}' | '\u{0300}'..='\u{036F}' | '\u{203F}'..='\u{2040}') }

/// The Char production of the declared version: what a character reference may denote.
fn is_char(c: char, v11: bool) -> bool {
    let u = c as u32;
    if u == 0 || u == 0xFFFE || u == 0xFFFF {
        return false;
    }
    // XML 1.0: #x9 | #xA | #xD | [#x20-#xD7FF] | [#xE000-#xFFFD] | [#x10000-#x10FFFF]; XML 1.1: [#x1-#xD7FF] | ...
    v11 || u >= 0x20 || matches!(u, 0x9 | 0xA | 0xD)
}

/// What may appear literally: Char, and in XML 1.1 minus RestrictedChar.
fn is_literal_char(c: char, v11: bool) -> bool {
    let u = c as u32;
    is_char(c, v11) && !(v11 && matches!(u, 0x1..=0x8 | 0xB..=0xC | 0xE..=0x1F | 0x7F..=0x84 | 0x86..=0x9F))
}

pub fn valid_name(s: &str) -> bool {
    let mut it = s.chars();
    match it.next() {
        Some(c) if is_name_start(c) => it.all(is_name_char),
        _ => false,
    }
}

struct P<'a> {
    s: &'a str,
    i: usize,
    /// the document declares version 1.1
    v11: bool,
}

impl<'a> P<'a> {
    fn rest(&self) -> &'a str { &self.s[self.i ..] }
    fn eat(&mut self, lit: &str) -> bool {
        if self.rest().starts_with(lit) {
            self.i += lit.len();
            true
        } else {
            false
        }
    }
    fn ws(&mut self) {
        while let Some(c) = self.rest().chars().next() {
            if matches!(c, ' ' | '\t' | '\r' | '\n') {
                self.i += 1;
            } else {
                break;
            }
        }
    }
    fn name(&mut self) -> Result<String, String> {
        let r = self.rest();
        let mut end = 0;
        for (k, c) in r.char_indices() {
            let ok = if k == 0 { is_name_start(c) } else { is_name_char(c) };
            if !ok {
                break;
            }
            end = k + c.len_utf8();
        }
        if end == 0 {
            return Err(format!("invalid element name at byte {}: {:?}", self.i, r.chars().take(20).collect::<String>()));
        }
        self.i += end;
        Ok(r[.. end].to_string())
    }
    fn text(&mut self) -> Result<String, String> {
        let mut out = String::new();
        loop {
            let r = self.rest();
            let Some(c) = r.chars().next() else { return Err("unexpected end inside content".into()) };
            match c {
                '<' => return Ok(out),
                '&' => {
                    let semi = r.find(';').ok_or("unterminated entity reference")?;
                    let ent = &r[1 .. semi];
                    let ch = match ent {
                        "lt" => '<',
                        "gt" => '>',
                        "amp" => '&',
                        "apos" => '\'',
                        "quot" => '"',
                        e if e.starts_with('#') => {
                            let code = if let Some(h) = e.strip_prefix("#x") { u32::from_str_radix(h, 16).ok() } else { e[1 ..].parse::<u32>().ok() };
                            let ch = code.and_then(char::from_u32).ok_or("bad character reference")?;
                            if !is_char(ch, self.v11) {
                                return Err(format!("character reference &{e}; is not a legal character in XML {}", if self.v11 { "1.1" } else { "1.0" }));
                            }
                            ch
                        }
                        e => return Err(format!("unknown entity &{e};")),
                    };
                    out.push(ch);
                    self.i += semi + 1;
                }
                c if !is_literal_char(c, self.v11) => return Err(format!("character U+{:04X} may not appear literally in XML {} text", c as u32, if self.v11 { "1.1" } else { "1.0" })),
                c => {
                    if r.starts_with("]]>") {
                        return Err("']]>' in character data".into());
                    }
                    out.push(c);
                    self.i += c.len_utf8();
                }
            }
        }
    }
    fn element(&mut self, depth: usize) -> Result<Node, String> {
        if depth > 200 {
            return Err("too deep".into());
        }
        if !self.eat("<") {
            return Err("expected '<'".into());
        }
        let name = self.name()?;
        self.ws();
        // one optional attribute: key="..."
        let mut key = None;
        if self.eat("key=\"") {
            let r = self.rest();
            let end = r.find('"').ok_or("unterminated attribute value")?;
            let raw = &r[.. end];
            if raw.contains('<') {
                return Err("'<' in attribute value".into());
            }
            // decode with the text rules (entities, literal-character restrictions)
            let mut sub = P { s: raw, i: 0, v11: self.v11 };
            let mut val = String::new();
            while !sub.rest().is_empty() {
                let before = sub.i;
                // `text` stops at '<' only; append a sentinel-free copy
                let chunk = {
                    let mut tmp = P { s: &raw[before ..], i: 0, v11: self.v11 };
                    let mut tail = String::from(&raw[before ..]);
                    tail.push('<');
                    let mut t2 = P { s: &tail, i: 0, v11: self.v11 };
                    let v = t2.text()?;
                    tmp.i = raw.len() - before;
                    sub.i = before + tmp.i;
                    v
                };
                val.push_str(&chunk);
            }
            if raw.chars().any(|c| matches!(c, '\t' | '\n' | '\r')) {
                return Err("literal white space control in attribute value".into());
            }
            key = Some(val);
            self.i += end + 1;
            self.ws();
        }
        if self.eat("/>") {
            return Ok(Node::Element { name, key, children: vec![] });
        }
        if !self.eat(">") {
            return Err(format!("malformed start tag <{name}"));
        }
        let mut children = Vec::new();
        loop {
            if self.rest().starts_with("</") {
                self.i += 2;
                let end = self.name()?;
                self.ws();
                if !self.eat(">") {
                    return Err("malformed end tag".into());
                }
                if end != name {
                    return Err(format!("end tag </{end}> does not match <{name}>"));
                }
                return Ok(Node::Element { name, key, children });
            }
            if self.rest().starts_with('<') {
                children.push(self.element(depth + 1)?);
            } else {
                let t = self.text()?;
                if !t.is_empty() {
                    children.push(Node::Text(t));
                }
            }
        }
    }
}

/// Parse a document: declaration, one root element, optional trailing whitespace.
pub fn parse(doc: &str) -> Result<Node, String> {
    let mut p = P { s: doc, i: 0, v11: false };
    if p.eat("<?xml") {
        let end = p.rest().find("?>").ok_or("unterminated XML declaration")?;
        let decl = &p.rest()[.. end];
        if decl.contains("version=\"1.1\"") || decl.contains("version='1.1'") {
            p.v11 = true;
        } else if !decl.contains("version=\"1.0\"") && !decl.contains("version='1.0'") {
            return Err("XML declaration without a known version".into());
        }
        p.i += end + 2;
    }
    p.ws();
    let root = p.element(0)?;
    p.ws();
    if !p.rest().is_empty() {
        return Err(format!("content after the root element: {:?}", p.rest().chars().take(30).collect::<String>()));
    }
    Ok(root)
}
