//! The scripted in-process transport ("server") and its event log.

use gamedig::protocols::types::TimeoutSettings;
use gamedig::verif_hook::{self, Proto, Wire};
use gamedig::{GDErrorKind, GDResult};

use std::cell::RefCell;
use std::collections::VecDeque;
use std::net::SocketAddr;
use std::rc::Rc;

use crate::alloc::{self, AllocStats};
use crate::panics::{self, PanicRecord};

pub const RUNAWAY_OPS: usize = 100_000;

#[derive(Debug, Clone, PartialEq)]
pub enum RecvOut {
    Data(Vec<u8>),
    Timeout,
}

#[derive(Debug, Clone, PartialEq)]
pub enum Ev {
    Open {
        conn: u64,
        proto: Proto,
        peer: SocketAddr,
        timeouts: Option<TimeoutSettings>,
        refused: bool,
    },
    Send {
        conn: u64,
        data: Vec<u8>,
        failed: bool,
    },
    Recv {
        conn: u64,
        size: Option<usize>,
        out: RecvOut,
    },
    Close {
        conn: u64,
    },
}

pub struct Conn {
    pub proto: Proto,
    pub peer: SocketAddr,
    /// UDP: queued datagrams.
    pub inbox: VecDeque<Vec<u8>>,
    /// TCP: bytes written by the server and not yet read.
    pub stream: Vec<u8>,
    /// TCP: server closed its side.
    pub closed: bool,
    pub sends: usize,
}

/// What a responder may do in reaction to an event.
pub struct Outbox<'a> {
    pub conn: &'a mut Conn,
    pub fail: bool,
}

impl<'a> Outbox<'a> {
    pub fn datagram(&mut self, d: Vec<u8>) { self.conn.inbox.push_back(d); }
    pub fn stream(&mut self, d: &[u8]) { self.conn.stream.extend_from_slice(d); }
    pub fn close(&mut self) { self.conn.closed = true; }
    /// Make the current operation (open / send) fail.
    pub fn fail(&mut self) { self.fail = true; }
}

/// A server behaviour.
pub trait Responder {
    /// A connection is opened. `out.fail()` refuses it.
    fn on_open(&mut self, _proto: Proto, _peer: &SocketAddr, _out: &mut Outbox) {}
    /// The client sent `data`. `nth` is the index of this send on this
    /// connection (from 0). `out.fail()` makes the send fail.
    fn on_send(&mut self, proto: Proto, peer: &SocketAddr, nth: usize, data: &[u8], out: &mut Outbox);
    /// The client found nothing to read (timeout).
    fn on_timeout(&mut self, _conn: u64) {}
}

impl<F: FnMut(Proto, &SocketAddr, usize, &[u8], &mut Outbox)> Responder for F {
    fn on_send(&mut self, proto: Proto, peer: &SocketAddr, nth: usize, data: &[u8], out: &mut Outbox) {
        self(proto, peer, nth, data, out)
    }
}

pub struct WireState {
    pub conns: Vec<Conn>,
    pub log: Vec<Ev>,
    pub ops: usize,
    pub runaway: bool,
    pub responder: Box<dyn Responder>,
}

pub struct ScriptWire(pub Rc<RefCell<WireState>>);

impl WireState {
    fn tick(&mut self) -> bool {
        self.ops += 1;
        if self.ops > RUNAWAY_OPS {
            self.runaway = true;
        }
        // a caller that ignores the errors it now gets would spin forever: unwind out of it
        if self.ops > 2 * RUNAWAY_OPS {
            panic!("verif: runaway (the query keeps using the transport although every operation fails)");
        }
        self.runaway
    }
}

impl Wire for ScriptWire {
    fn open(&mut self, proto: Proto, peer: &SocketAddr, timeouts: &Option<TimeoutSettings>) -> GDResult<u64> {
        let st = &mut *self.0.borrow_mut();
        if st.tick() {
            return Err(GDErrorKind::SocketConnect.context("verif: runaway"));
        }
        let conn = st.conns.len() as u64;
        let mut c = Conn {
            proto,
            peer: *peer,
            inbox: VecDeque::new(),
            stream: Vec::new(),
            closed: false,
            sends: 0,
        };
        let mut out = Outbox {
            conn: &mut c,
            fail: false,
        };
        st.responder.on_open(proto, peer, &mut out);
        let refused = out.fail;
        st.conns.push(c);
        st.log.push(Ev::Open {
            conn,
            proto,
            peer: *peer,
            timeouts: *timeouts,
            refused,
        });
        if refused {
            return Err(GDErrorKind::SocketConnect.context("verif: refused"));
        }
        Ok(conn)
    }

    fn send(&mut self, conn: u64, data: &[u8]) -> GDResult<()> {
        let st = &mut *self.0.borrow_mut();
        if st.tick() {
            return Err(GDErrorKind::PacketSend.context("verif: runaway"));
        }
        let c = &mut st.conns[conn as usize];
        let nth = c.sends;
        c.sends += 1;
        let (proto, peer) = (c.proto, c.peer);
        let mut out = Outbox {
            conn: c,
            fail: false,
        };
        st.responder.on_send(proto, &peer, nth, data, &mut out);
        let failed = out.fail;
        st.log.push(Ev::Send {
            conn,
            data: data.to_vec(),
            failed,
        });
        if failed {
            return Err(GDErrorKind::PacketSend.context("verif: send failed"));
        }
        Ok(())
    }

    fn recv(&mut self, conn: u64, size: Option<usize>) -> GDResult<Vec<u8>> {
        let st = &mut *self.0.borrow_mut();
        if st.tick() {
            return Err(GDErrorKind::PacketReceive.context("verif: runaway"));
        }
        let c = &mut st.conns[conn as usize];
        let got = match c.proto {
            Proto::Udp => {
                c.inbox.pop_front().map(|mut d| {
                    d.truncate(size.unwrap_or(1024));
                    d
                })
            }
            Proto::Tcp => {
                if c.closed {
                    Some(std::mem::take(&mut c.stream))
                } else {
                    // read_to_end hits the read timeout: bytes read so far are lost
                    c.stream.clear();
                    None
                }
            }
        };
        match got {
            Some(d) => {
                st.log.push(Ev::Recv {
                    conn,
                    size,
                    out: RecvOut::Data(d.clone()),
                });
                Ok(d)
            }
            None => {
                st.log.push(Ev::Recv {
                    conn,
                    size,
                    out: RecvOut::Timeout,
                });
                st.responder.on_timeout(conn);
                Err(GDErrorKind::PacketReceive.context("verif: timeout"))
            }
        }
    }

    fn close(&mut self, conn: u64) {
        if let Ok(mut st) = self.0.try_borrow_mut() {
            st.log.push(Ev::Close { conn });
        }
    }
}

/// How a query ended.
#[derive(Debug)]
pub enum Ended<T> {
    Ok(T),
    Err(GDErrorKind),
    Panic(PanicRecord),
}

impl<T> Ended<T> {
    pub fn kind_str(&self) -> String {
        match self {
            Ended::Ok(_) => "Ok".into(),
            Ended::Err(k) => format!("Err({k:?})"),
            Ended::Panic(p) => format!("Panic({})", p.class()),
        }
    }
    pub fn ok(self) -> Option<T> {
        match self {
            Ended::Ok(v) => Some(v),
            _ => None,
        }
    }
    pub fn as_ok(&self) -> Option<&T> {
        match self {
            Ended::Ok(v) => Some(v),
            _ => None,
        }
    }
    pub fn err_kind(&self) -> Option<&GDErrorKind> {
        match self {
            Ended::Err(k) => Some(k),
            _ => None,
        }
    }
}

pub struct Run<T> {
    pub ended: Ended<T>,
    pub log: Vec<Ev>,
    pub runaway: bool,
    pub alloc: AllocStats,
}

impl<T> Run<T> {
    pub fn sends(&self) -> Vec<&[u8]> {
        self.log
            .iter()
            .filter_map(|e| {
                match e {
                    Ev::Send { data, .. } => Some(data.as_slice()),
                    _ => None,
                }
            })
            .collect()
    }
    pub fn n_sends(&self) -> usize { self.log.iter().filter(|e| matches!(e, Ev::Send { .. })).count() }
    pub fn n_recv_data(&self) -> usize {
        self.log
            .iter()
            .filter(|e| {
                matches!(
                    e,
                    Ev::Recv {
                        out: RecvOut::Data(_),
                        ..
                    }
                )
            })
            .count()
    }
    pub fn opens(&self) -> Vec<(Proto, SocketAddr)> {
        self.log
            .iter()
            .filter_map(|e| {
                match e {
                    Ev::Open { proto, peer, .. } => Some((*proto, *peer)),
                    _ => None,
                }
            })
            .collect()
    }
}

/// Run `f` on this thread against the scripted server `responder`.
pub fn run_scripted<T>(responder: Box<dyn Responder>, f: impl FnOnce() -> GDResult<T>) -> Run<T> {
    let st = Rc::new(RefCell::new(WireState {
        conns: Vec::new(),
        log: Vec::new(),
        ops: 0,
        runaway: false,
        responder,
    }));
    verif_hook::install(Box::new(ScriptWire(st.clone())));
    alloc::arm();
    let r = panics::catch(f);
    let stats = alloc::disarm();
    verif_hook::uninstall();
    let ended = match r {
        Ok(Ok(v)) => Ended::Ok(v),
        Ok(Err(e)) => Ended::Err(e.kind),
        Err(p) => Ended::Panic(p),
    };
    let mut guard = st.borrow_mut();
    Run {
        ended,
        log: std::mem::take(&mut guard.log),
        runaway: guard.runaway,
        alloc: stats,
    }
}

pub fn hex(b: &[u8]) -> String {
    let mut s = String::with_capacity(b.len() * 2);
    for x in b {
        s.push_str(&format!("{x:02x}"));
    }
    s
}

pub fn unhex(s: &str) -> Vec<u8> {
    (0 .. s.len() / 2)
        .map(|i| u8::from_str_radix(&s[2 * i .. 2 * i + 2], 16).unwrap_or(0))
        .collect()
}

/// Compact rendering of a log for replay files.
pub fn render_log(log: &[Ev]) -> Vec<String> {
    log.iter()
        .map(|e| {
            match e {
                Ev::Open {
                    conn,
                    proto,
                    peer,
                    refused,
                    ..
                } => format!("open#{conn} {proto:?} {peer}{}", if *refused { " REFUSED" } else { "" }),
                Ev::Send { conn, data, failed } => {
                    format!(
                        "send#{conn} {}{}",
                        hex(&data[.. data.len().min(96)]),
                        if *failed { " FAILED" } else { "" }
                    )
                }
                Ev::Recv { conn, size, out } => {
                    match out {
                        RecvOut::Data(d) => {
                            format!(
                                "recv#{conn} size={size:?} len={} {}",
                                d.len(),
                                hex(&d[.. d.len().min(64)])
                            )
                        }
                        RecvOut::Timeout => format!("recv#{conn} size={size:?} TIMEOUT"),
                    }
                }
                Ev::Close { conn } => format!("close#{conn}"),
            }
        })
        .collect()
}

/// Run `f` on this thread with no scripted wire installed (real sockets).
pub fn run_plain<T>(f: impl FnOnce() -> GDResult<T>) -> Run<T> {
    verif_hook::uninstall();
    alloc::arm();
    let r = panics::catch(f);
    let stats = alloc::disarm();
    let ended = match r {
        Ok(Ok(v)) => Ended::Ok(v),
        Ok(Err(e)) => Ended::Err(e.kind),
        Err(p) => Ended::Panic(p),
    };
    Run {
        ended,
        log: Vec::new(),
        runaway: false,
        alloc: stats,
    }
}
