//! Real loopback UDP / TCP servers driven by the same `Responder`s as the scripted wire.

use gamedig::verif_hook::Proto;
use std::collections::{HashMap, VecDeque};
use std::io::{Read, Write};
use std::net::{IpAddr, SocketAddr, TcpListener, UdpSocket};
use std::sync::atomic::{AtomicBool, AtomicUsize, Ordering};
use std::sync::{Arc, Mutex};
use std::time::Duration;

use crate::wire::{Conn, Outbox, Responder};

pub type Factory = Box<dyn FnOnce() -> Box<dyn Responder> + Send>;

/// What the server saw, for fidelity checks.
#[derive(Default, Debug, Clone)]
pub struct Seen {
    /// payloads received, in order
    pub received: Vec<Vec<u8>>,
    pub connections: usize,
}

pub struct RealServer {
    pub addr: SocketAddr,
    stop: Arc<AtomicBool>,
    pub seen: Arc<Mutex<Seen>>,
    pub handled: Arc<AtomicUsize>,
    thread: Option<std::thread::JoinHandle<()>>,
}

impl Drop for RealServer {
    fn drop(&mut self) {
        self.stop.store(true, Ordering::SeqCst);
        if let Some(t) = self.thread.take() {
            let _ = t.join();
        }
    }
}

fn new_conn(proto: Proto, peer: SocketAddr) -> Conn {
    Conn {
        proto,
        peer,
        inbox: VecDeque::new(),
        stream: Vec::new(),
        closed: false,
        sends: 0,
    }
}

/// Split what a TCP client wrote into the units the responders expect (Minecraft framing).
fn split_tcp(buf: &mut Vec<u8>, raw: &mut bool) -> Vec<Vec<u8>> {
    let mut out = Vec::new();
    loop {
        if buf.is_empty() {
            break;
        }
        if *raw || buf[0] == 0xFE {
            *raw = true;
            // the same legacy ping several times over (a client that timed out and asked again before this thread was
            // scheduled): one request per copy, as the server would have seen them
            const V1_6: [u8; 20] = [0xFE, 0x01, 0xFA, 0x00, 0x07, 0x00, 0x47, 0x00, 0x61, 0x00, 0x6D, 0x00, 0x65, 0x00, 0x44, 0x00, 0x69, 0x00, 0x67, 0x00];
            let mut copies = false;
            for lit in [&V1_6[.. 19], &[0xFE, 0x01][..], &[0xFE][..]] {
                if buf.len() >= 2 * lit.len() && buf.len() % lit.len() == 0 && buf.chunks(lit.len()).all(|c| c == lit) {
                    for c in buf.chunks(lit.len()) {
                        out.push(c.to_vec());
                    }
                    buf.clear();
                    copies = true;
                    break;
                }
            }
            if copies {
                break;
            }
            // legacy ping: everything available is one request
            out.push(std::mem::take(buf));
            break;
        }
        // VarInt length + body (the request as the client sends it includes the length prefix)
        let mut len: usize = 0;
        let mut used = 0;
        let mut ok = false;
        for i in 0 .. 5 {
            let Some(b) = buf.get(i) else { break };
            len |= ((b & 0x7F) as usize) << (7 * i);
            used = i + 1;
            if b & 0x80 == 0 {
                ok = true;
                break;
            }
        }
        if !ok || buf.len() < used + len {
            break; // incomplete frame: wait for more
        }
        let frame: Vec<u8> = buf.drain(.. used + len).collect();
        out.push(frame);
    }
    out
}

impl RealServer {
    pub fn start(proto: Proto, ip: IpAddr, factory: Factory) -> Option<Self> {
        let stop = Arc::new(AtomicBool::new(false));
        let seen = Arc::new(Mutex::new(Seen::default()));
        let handled = Arc::new(AtomicUsize::new(0));
        match proto {
            Proto::Udp => {
                let sock = UdpSocket::bind(SocketAddr::new(ip, 0)).ok()?;
                let addr = sock.local_addr().ok()?;
                sock.set_read_timeout(Some(Duration::from_millis(10))).ok()?;
                let (stop2, seen2, handled2) = (stop.clone(), seen.clone(), handled.clone());
                let thread = std::thread::Builder::new()
                    .name("gdv-udp-server".into())
                    .spawn(move || {
                        let mut responder = factory();
                        let mut conns: HashMap<SocketAddr, Conn> = HashMap::new();
                        let mut buf = vec![0u8; 70_000];
                        while !stop2.load(Ordering::SeqCst) {
                            let Ok((n, peer)) = sock.recv_from(&mut buf) else { continue };
                            let data = buf[.. n].to_vec();
                            seen2.lock().unwrap().received.push(data.clone());
                            let conn = conns.entry(peer).or_insert_with(|| {
                                let mut c = new_conn(Proto::Udp, peer);
                                let mut out = Outbox { conn: &mut c, fail: false };
                                responder.on_open(Proto::Udp, &addr, &mut out);
                                seen2.lock().unwrap().connections += 1;
                                c
                            });
                            let nth = conn.sends;
                            conn.sends += 1;
                            let mut out = Outbox { conn, fail: false };
                            responder.on_send(Proto::Udp, &addr, nth, &data, &mut out);
                            while let Some(d) = conn.inbox.pop_front() {
                                let _ = sock.send_to(&d, peer);
                            }
                            handled2.fetch_add(1, Ordering::SeqCst);
                        }
                    })
                    .ok()?;
                Some(Self { addr, stop, seen, handled, thread: Some(thread) })
            }
            Proto::Tcp => {
                let listener = TcpListener::bind(SocketAddr::new(ip, 0)).ok()?;
                let addr = listener.local_addr().ok()?;
                listener.set_nonblocking(true).ok()?;
                let (stop2, seen2, handled2) = (stop.clone(), seen.clone(), handled.clone());
                let thread = std::thread::Builder::new()
                    .name("gdv-tcp-server".into())
                    .spawn(move || {
                        let mut responder = factory();
                        // connections are served one after the other (the clients under test are sequential)
                        while !stop2.load(Ordering::SeqCst) {
                            let Ok((mut stream, peer)) = listener.accept() else {
                                std::thread::sleep(Duration::from_millis(2));
                                continue;
                            };
                            let _ = stream.set_nonblocking(false);
                            let _ = stream.set_read_timeout(Some(Duration::from_millis(5)));
                            let _ = stream.set_nodelay(true);
                            seen2.lock().unwrap().connections += 1;
                            let mut conn = new_conn(Proto::Tcp, peer);
                            {
                                let mut out = Outbox { conn: &mut conn, fail: false };
                                responder.on_open(Proto::Tcp, &addr, &mut out);
                                if out.fail {
                                    continue; // dropped right away
                                }
                            }
                            let mut pending: Vec<u8> = Vec::new();
                            let mut raw = false;
                            let mut tmp = [0u8; 4096];
                            let mut idle = 0;
                            loop {
                                if stop2.load(Ordering::SeqCst) {
                                    break;
                                }
                                match stream.read(&mut tmp) {
                                    Ok(0) => break, // client closed
                                    Ok(n) => {
                                        idle = 0;
                                        seen2.lock().unwrap().received.push(tmp[.. n].to_vec());
                                        pending.extend_from_slice(&tmp[.. n]);
                                        for unit in split_tcp(&mut pending, &mut raw) {
                                            let nth = conn.sends;
                                            conn.sends += 1;
                                            let mut out = Outbox { conn: &mut conn, fail: false };
                                            responder.on_send(Proto::Tcp, &addr, nth, &unit, &mut out);
                                        }
                                        if !conn.stream.is_empty() {
                                            let _ = stream.write_all(&conn.stream);
                                            let _ = stream.flush();
                                            conn.stream.clear();
                                        }
                                        handled2.fetch_add(1, Ordering::SeqCst);
                                        if conn.closed {
                                            let _ = stream.shutdown(std::net::Shutdown::Both);
                                            break;
                                        }
                                    }
                                    Err(e) if e.kind() == std::io::ErrorKind::WouldBlock || e.kind() == std::io::ErrorKind::TimedOut => {
                                        idle += 1;
                                        // a silent server keeps the connection open until the client gives up (bounded)
                                        if idle > 2000 {
                                            break;
                                        }
                                        // other clients may be waiting (a new attempt after the client dropped this one)
                                        if let Ok((s2, p2)) = listener.accept() {
                                            let _ = s2.set_nonblocking(false);
                                            let _ = s2.set_read_timeout(Some(Duration::from_millis(5)));
                                            stream = s2;
                                            seen2.lock().unwrap().connections += 1;
                                            conn = new_conn(Proto::Tcp, p2);
                                            let mut out = Outbox { conn: &mut conn, fail: false };
                                            responder.on_open(Proto::Tcp, &addr, &mut out);
                                            pending.clear();
                                            raw = false;
                                            idle = 0;
                                        }
                                    }
                                    Err(_) => break,
                                }
                            }
                        }
                    })
                    .ok()?;
                Some(Self { addr, stop, seen, handled, thread: Some(thread) })
            }
        }
    }
}

/// A loopback port that refuses TCP connections for as long as the value lives: a stream socket that is bound but never
/// listens. (A port that merely WAS free a moment ago can be handed to another server by the kernel -- in another thread or
/// another check's process -- before it is used: seen once, as a "refused" connection that was answered.)
pub struct HeldPort {
    pub port: u16,
    fd: i32,
    _udp: Option<UdpSocket>,
}

impl Drop for HeldPort {
    fn drop(&mut self) {
        if self.fd >= 0 {
            unsafe {
                libc::close(self.fd);
            }
        }
    }
}

pub fn refusing_tcp_port(ip: IpAddr) -> Option<HeldPort> {
    unsafe {
        let (family, fd) = match ip {
            IpAddr::V4(_) => (libc::AF_INET, libc::socket(libc::AF_INET, libc::SOCK_STREAM, 0)),
            IpAddr::V6(_) => (libc::AF_INET6, libc::socket(libc::AF_INET6, libc::SOCK_STREAM, 0)),
        };
        if fd < 0 {
            return None;
        }
        let ok = match ip {
            IpAddr::V4(a) => {
                let mut sa: libc::sockaddr_in = std::mem::zeroed();
                sa.sin_family = family as libc::sa_family_t;
                sa.sin_port = 0;
                sa.sin_addr = libc::in_addr { s_addr: u32::from_ne_bytes(a.octets()) };
                libc::bind(fd, &sa as *const _ as *const libc::sockaddr, std::mem::size_of::<libc::sockaddr_in>() as libc::socklen_t) == 0
            }
            IpAddr::V6(a) => {
                let mut sa: libc::sockaddr_in6 = std::mem::zeroed();
                sa.sin6_family = family as libc::sa_family_t;
                sa.sin6_port = 0;
                sa.sin6_addr = libc::in6_addr { s6_addr: a.octets() };
                libc::bind(fd, &sa as *const _ as *const libc::sockaddr, std::mem::size_of::<libc::sockaddr_in6>() as libc::socklen_t) == 0
            }
        };
        if !ok {
            libc::close(fd);
            return None;
        }
        let mut ss: libc::sockaddr_storage = std::mem::zeroed();
        let mut len = std::mem::size_of::<libc::sockaddr_storage>() as libc::socklen_t;
        if libc::getsockname(fd, &mut ss as *mut _ as *mut libc::sockaddr, &mut len) != 0 {
            libc::close(fd);
            return None;
        }
        let port = match ip {
            IpAddr::V4(_) => u16::from_be((*(&ss as *const _ as *const libc::sockaddr_in)).sin_port),
            IpAddr::V6(_) => u16::from_be((*(&ss as *const _ as *const libc::sockaddr_in6)).sin6_port),
        };
        Some(HeldPort { port, fd, _udp: None })
    }
}

/// A loopback UDP port that stays silent for as long as the value lives (a bound socket nobody reads).
pub fn silent_udp_port(ip: IpAddr) -> Option<HeldPort> {
    let s = UdpSocket::bind(SocketAddr::new(ip, 0)).ok()?;
    let port = s.local_addr().ok()?.port();
    Some(HeldPort { port, fd: -1, _udp: Some(s) })
}

/// Transport fidelity: replays a case whose scripted run succeeded over real loopback sockets, with a fresh
/// responder from `make`, and demands the same value. A differing run is retried twice with a fresh server
/// (datagrams can be dropped under load); a persistent difference is returned to the caller, which reports it as a
/// violation: the reply is well-formed and the library, over its real transport, does not return it (on the unchanged
/// tree both transports agree on every sampled trace). A timeout on the real sockets is tolerated and not counted.
pub fn fidelity<T: PartialEq>(
    what: &str,
    proto: Proto,
    make: impl Fn() -> Box<dyn Responder> + Send + Clone + 'static,
    scripted: &crate::wire::Run<T>,
    read_ms: u64,
    call: impl Fn(SocketAddr, Option<gamedig::protocols::types::TimeoutSettings>) -> gamedig::GDResult<T>,
    validated: &std::sync::atomic::AtomicU64,
) -> Option<String> {
    let crate::wire::Ended::Ok(want) = &scripted.ended else { return None };
    let lo: IpAddr = std::net::Ipv4Addr::LOCALHOST.into();
    let mut last = String::new();
    for attempt in 0 .. 3u64 {
        let mk = make.clone();
        let Some(real) = RealServer::start(proto, lo, Box::new(move || mk())) else { return None };
        let d = Duration::from_millis(read_ms * (attempt + 1));
        let t = gamedig::protocols::types::TimeoutSettings::new(Some(d), Some(d), Some(Duration::from_secs(3)), 0).ok();
        let r = crate::wire::run_plain(|| call(real.addr, t));
        match &r.ended {
            crate::wire::Ended::Ok(got) if got == want => {
                validated.fetch_add(1, Ordering::Relaxed);
                return None;
            }
            crate::wire::Ended::Err(gamedig::GDErrorKind::PacketReceive) => last = "PacketReceive".into(),
            other => last = other.kind_str(),
        }
    }
    let _ = what;
    if last != "PacketReceive" {
        return Some(last);
    }
    None
}
