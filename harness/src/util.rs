//! Shared generator pieces and comparison helpers.

use proptest::prelude::*;
use serde::Serialize;
use serde_json::{json, Value};

use crate::runner::Failure;
use crate::wire::{render_log, Ended, Run};

/// Characters: mostly ASCII, some Latin-1 supplement, BMP and astral; never
/// one of `excl` (excluded ones are remapped, not rejected).
pub fn ch(excl: &'static [char]) -> impl Strategy<Value = char> {
    prop_oneof![
        60 => (0x20u32..0x7F).prop_map(|c| char::from_u32(c).unwrap()),
        10 => prop::sample::select(vec!['a', 'Z', '0', ' ', '_', '-', '.', ':', '/', '\\', '"', '\'', '<', '>', '&', ';', ',', '=', '%', '$', '§', '\t']),
        8 => (0xA0u32..0x100).prop_map(|c| char::from_u32(c).unwrap()),
        8 => (0x100u32..0xD800).prop_map(|c| char::from_u32(c).unwrap()),
        3 => (0xE000u32..0xFFFE).prop_map(|c| char::from_u32(c).unwrap()),
        3 => (0x1_0000u32..0x2_0000).prop_map(|c| char::from_u32(c).unwrap()),
        1 => (0x01u32..0x20).prop_map(|c| char::from_u32(c).unwrap()),
    ]
    .prop_map(move |c| if excl.contains(&c) || c == '\0' { 'x' } else { c })
}

/// Values that real servers send as placeholders and that clients are tempted to treat specially.
pub const NOTABLE: &[&str] = &[
    "Anonymous Player", "Unknown", "unknown", "Player", "player", "unnamed", "UnnamedPlayer", "Unknown Soldier", "bot", "BOT", "Bot", "[BOT]", "Spectator", "spectator", "console",
    "Server", "null", "None", "N/A", "-", "?", "00000000-0000-0000-0000-000000000000",
];

/// Text of 0..=max chars with a skew to short strings; never contains NUL or `excl`. One in twenty is a well-known
/// placeholder value (`NOTABLE`).
pub fn text(excl: &'static [char], max: usize) -> impl Strategy<Value = String> {
    let max = max.max(2);
    let generated = prop_oneof![
        2 => Just(0usize..1),
        6 => Just(1usize..9),
        4 => Just(8usize..(40.min(max) + 1).max(10)),
        1 => Just(max / 2..max + 1),
    ]
    .prop_flat_map(move |r| prop::collection::vec(ch(excl), r))
    .prop_map(|v| v.into_iter().collect::<String>());
    let notable = prop::sample::select(NOTABLE).prop_map(move |s| s.chars().map(|c| if excl.contains(&c) { 'x' } else { c }).take(max).collect::<String>());
    prop_oneof![19 => generated, 1 => notable]
}

/// Integers with a bias to the values where conversions, masks and signs change behaviour (type limits, powers of two
/// around the narrower types' limits): plain `any` almost never produces them for the wide types.
pub trait Edgy: Copy + std::fmt::Debug + proptest::arbitrary::Arbitrary + 'static {
    fn edges() -> Vec<Self>;
}
macro_rules! edgy {
    ($($t:ty),*) => {
        $(impl Edgy for $t {
            fn edges() -> Vec<$t> {
                let mut v: Vec<$t> = vec![0 as $t, 1 as $t, 2 as $t, <$t>::MAX, <$t>::MAX - 1, <$t>::MIN, <$t>::MIN + 1, <$t>::MAX / 2, <$t>::MAX / 2 + 1];
                for x in [127i128, 128, 255, 256, 32767, 32768, 65535, 65536, 16_777_215, 16_777_216, 2_147_483_647, 2_147_483_648, 4_294_967_295, 4_294_967_296, -1, -128, -129, -32768, -32769] {
                    if let Ok(y) = <$t>::try_from(x) {
                        v.push(y);
                    }
                }
                v.sort();
                v.dedup();
                v
            }
        })*
    };
}
edgy!(u8, u16, u32, u64, i8, i16, i32, i64);

pub fn num<T: Edgy>() -> impl Strategy<Value = T> { prop_oneof![5 => any::<T>(), 1 => prop::sample::select(T::edges())] }

/// Keys that are NEAR the keys a protocol treats specially (a suffix or prefix added, the case changed, a character
/// dropped): an ordinary key for every format, and the kind a too-lenient comparison (prefix match, case folding) swallows.
pub fn near(special: &'static [&'static str]) -> impl Strategy<Value = String> {
    (prop::sample::select(special), 0u8 .. 12, prop::sample::select(vec!["s", "Count", "2", "x", "List", "Name", "0"]), prop::sample::select(vec!["x", "sv", "my", "X", "g", "old"])).prop_map(|(k, how, suffix, prefix)| {
        match how {
            0 | 1 | 2 => format!("{k}{suffix}"),
            3 | 4 => format!("{prefix}{k}"),
            5 => k.to_uppercase(),
            6 => k.to_lowercase(),
            7 => {
                let mut c = k.chars();
                match c.next() {
                    Some(f) => format!("{}{}", if f.is_uppercase() { f.to_lowercase().to_string() } else { f.to_uppercase().to_string() }, c.as_str()),
                    None => String::new(),
                }
            }
            8 => k[.. k.len().saturating_sub(1)].to_string(),
            9 => format!("{k}{k}"),
            10 => k.chars().skip(1).collect(),
            _ => format!("{prefix}{k}{suffix}"),
        }
    })
}

/// Non-empty ASCII identifier-like key.
pub fn key() -> impl Strategy<Value = String> { "[A-Za-z][A-Za-z0-9]{0,11}".prop_map(|s| s) }

/// Remove duplicates (by key) keeping the first occurrence.
pub fn dedup_by_key<T>(v: Vec<(String, T)>) -> Vec<(String, T)> {
    let mut seen = std::collections::HashSet::new();
    v.into_iter().filter(|(k, _)| seen.insert(k.clone())).collect()
}

/// First path at which two JSON values differ, with array indices collapsed to `#`.
pub fn json_diff_path(a: &Value, b: &Value) -> Option<String> {
    fn go(a: &Value, b: &Value, path: &mut String) -> bool {
        match (a, b) {
            (Value::Object(x), Value::Object(y)) => {
                let mut keys: Vec<&String> = x.keys().chain(y.keys()).collect();
                keys.sort();
                keys.dedup();
                // struct-like objects: few keys. map-like objects: report the container.
                for k in keys {
                    match (x.get(k), y.get(k)) {
                        (Some(u), Some(v)) => {
                            let l = path.len();
                            path.push('.');
                            path.push_str(k);
                            if go(u, v, path) {
                                return true;
                            }
                            path.truncate(l);
                        }
                        _ => {
                            path.push_str(".{keys}");
                            return true;
                        }
                    }
                }
                false
            }
            (Value::Array(x), Value::Array(y)) => {
                if x.len() != y.len() {
                    path.push_str(".len");
                    return true;
                }
                for (u, v) in x.iter().zip(y.iter()) {
                    let l = path.len();
                    path.push_str("[#]");
                    if go(u, v, path) {
                        return true;
                    }
                    path.truncate(l);
                }
                false
            }
            _ => a != b,
        }
    }
    let mut p = String::new();
    if go(a, b, &mut p) {
        Some(p)
    } else {
        None
    }
}

/// Set-valued fields (serialised as arrays in arbitrary order) are sorted before diffing.
pub fn normalise_sets(v: &mut Value) {
    match v {
        Value::Object(m) => {
            for (k, x) in m.iter_mut() {
                if k == "mutators" {
                    if let Value::Array(a) = x {
                        a.sort_by_key(|e| e.to_string());
                    }
                }
                normalise_sets(x);
            }
        }
        Value::Array(a) => a.iter_mut().for_each(normalise_sets),
        _ => {}
    }
}

fn to_norm<T: Serialize>(v: &T) -> Value {
    let mut x = serde_json::to_value(v).unwrap_or(Value::Null);
    normalise_sets(&mut x);
    x
}

/// Diff path where map-valued fields (named in `maps`) are reported as a whole.
pub fn diff_path<T: Serialize>(expected: &T, got: &T, maps: &[&str]) -> String {
    let a = to_norm(expected);
    let b = to_norm(got);
    let p = json_diff_path(&a, &b).unwrap_or_else(|| "<unknown>".into());
    for m in maps {
        if let Some(i) = p.find(m) {
            return p[.. i + m.len()].to_string();
        }
    }
    p
}

/// Value at a dotted path produced by `json_diff_path` (best effort).
fn at_path<'a>(v: &'a Value, path: &str) -> Option<&'a Value> {
    let mut cur = v;
    for part in path.split('.').filter(|p| !p.is_empty()) {
        let (name, _idx) = match part.find('[') {
            Some(i) => (&part[.. i], true),
            None => (part, false),
        };
        if name == "{keys}" || name == "len" {
            return Some(cur);
        }
        cur = cur.get(name)?;
    }
    Some(cur)
}

/// Compact description of how two values differ at `path`.
pub fn diff_detail<T: Serialize>(expected: &T, got: &T, path: &str) -> Value {
    let a = to_norm(expected);
    let b = to_norm(got);
    let (ea, eb) = (at_path(&a, path), at_path(&b, path));
    match (ea, eb) {
        (Some(Value::Object(x)), Some(Value::Object(y))) if x.len() > 8 || y.len() > 8 => {
            let missing: Vec<&String> = x.keys().filter(|k| !y.contains_key(*k)).take(5).collect();
            let extra: Vec<&String> = y.keys().filter(|k| !x.contains_key(*k)).take(5).collect();
            let changed: Vec<Value> = x
                .iter()
                .filter(|(k, v)| y.get(*k).map(|w| w != *v).unwrap_or(false))
                .take(5)
                .map(|(k, v)| json!({"key": k, "expected": v, "observed": y.get(k)}))
                .collect();
            json!({"expected_len": x.len(), "observed_len": y.len(), "missing_keys": missing, "extra_keys": extra, "changed": changed})
        }
        (Some(Value::Array(x)), Some(Value::Array(y))) if x.len() > 4 || y.len() > 4 => {
            let first = x.iter().zip(y.iter()).position(|(u, v)| u != v);
            json!({"expected_len": x.len(), "observed_len": y.len(), "first_differing_index": first,
                   "expected_item": first.and_then(|i| x.get(i)), "observed_item": first.and_then(|i| y.get(i))})
        }
        (x, y) => json!({"expected": x.map(brief), "observed": y.map(brief)}),
    }
}

pub fn brief<T: Serialize>(v: &T) -> Value {
    let val = serde_json::to_value(v).unwrap_or(Value::Null);
    let s = val.to_string();
    if s.len() > 3000 {
        let mut end = 3000;
        while !s.is_char_boundary(end) {
            end -= 1;
        }
        json!({ "truncated": &s[..end] })
    } else {
        val
    }
}

/// Standard verdict for "the query must return exactly `expected`".
pub fn expect_equal<T: PartialEq + Serialize>(
    id: &str,
    entry: &str,
    run: &Run<T>,
    expected: &T,
    maps: &[&str],
) -> Option<Failure> {
    match &run.ended {
        Ended::Ok(got) => {
            if got == expected {
                None
            } else {
                let path = diff_path(expected, got, maps);
                Some(Failure {
                    signature: format!("{id}|{entry}|mismatch|{path}"),
                    detail: json!({"first_difference": path, "difference": diff_detail(expected, got, &path),
                                   "expected": brief(expected), "observed": brief(got),
                                   "wire": render_log(&run.log[.. run.log.len().min(40)])}),
                })
            }
        }
        Ended::Err(k) => {
            Some(Failure {
                signature: format!("{id}|{entry}|error|{k:?}"),
                detail: json!({"expected": brief(expected), "observed_error": format!("{k:?}"),
                               "wire": render_log(&run.log[.. run.log.len().min(40)])}),
            })
        }
        Ended::Panic(p) => {
            Some(Failure {
                signature: format!("{id}|{entry}|panic|{}|{}", p.site(), p.class()),
                detail: json!({"panic": p, "wire": render_log(&run.log[.. run.log.len().min(40)])}),
            })
        }
    }
}

pub fn panic_failure<T>(id: &str, entry: &str, run: &Run<T>) -> Option<Failure> {
    match &run.ended {
        Ended::Panic(p) => {
            Some(Failure {
                signature: format!("{id}|{entry}|panic|{}|{}", p.site(), p.class()),
                detail: json!({"panic": p, "wire": render_log(&run.log[.. run.log.len().min(40)])}),
            })
        }
        _ => None,
    }
}

pub fn doc_ip() -> std::net::IpAddr { std::net::IpAddr::V4(std::net::Ipv4Addr::new(203, 0, 113, 7)) }
