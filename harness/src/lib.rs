//! The verification harness as a library (the `gdv` binary and the fuzz targets use it).
#![allow(dead_code)]
pub mod alloc;
pub mod bz2;
pub mod default_ports;
pub mod entries;
pub mod findings;
pub mod registry;
pub mod panics;
pub mod realnet;
pub mod runner;
pub mod wire;
pub mod xmlcheck;
pub mod models;
pub mod props;
pub mod util;
