//! bzip2 compression through a persistent `python3` co-process (an independent
//! libbz2 encoder). One process per thread, started lazily.

use std::cell::RefCell;
use std::io::{Read, Write};
use std::process::{Child, ChildStdin, ChildStdout, Command, Stdio};

const SCRIPT: &str = r#"
import sys, bz2, struct
i = sys.stdin.buffer
o = sys.stdout.buffer
while True:
    h = i.read(5)
    if len(h) < 5:
        break
    n, lvl = struct.unpack('<IB', h)
    d = i.read(n)
    c = bz2.compress(d, lvl if 1 <= lvl <= 9 else 9)
    o.write(struct.pack('<I', len(c)))
    o.write(c)
    o.flush()
"#;

struct Proc {
    child: Child,
    stdin: ChildStdin,
    stdout: ChildStdout,
}

impl Drop for Proc {
    fn drop(&mut self) {
        let _ = self.child.kill();
        let _ = self.child.wait();
    }
}

thread_local! {
    static PROC: RefCell<Option<Option<Proc>>> = const { RefCell::new(None) };
}

fn start() -> Option<Proc> {
    let mut child = Command::new("python3")
        .arg("-c")
        .arg(SCRIPT)
        .stdin(Stdio::piped())
        .stdout(Stdio::piped())
        .stderr(Stdio::null())
        .spawn()
        .ok()?;
    let stdin = child.stdin.take()?;
    let stdout = child.stdout.take()?;
    Some(Proc {
        child,
        stdin,
        stdout,
    })
}

/// Compress `data`; `None` if the co-process is unavailable.
pub fn compress(data: &[u8], level: u8) -> Option<Vec<u8>> {
    PROC.with(|p| {
        let mut g = p.borrow_mut();
        if g.is_none() {
            *g = Some(start());
        }
        let proc = g.as_mut().unwrap().as_mut()?;
        let mut hdr = (data.len() as u32).to_le_bytes().to_vec();
        hdr.push(level);
        let ok = proc.stdin.write_all(&hdr).is_ok() && proc.stdin.write_all(data).is_ok() && proc.stdin.flush().is_ok();
        if !ok {
            *g = Some(None);
            return None;
        }
        let mut len = [0u8; 4];
        if proc.stdout.read_exact(&mut len).is_err() {
            *g = Some(None);
            return None;
        }
        let mut out = vec![0u8; u32::from_le_bytes(len) as usize];
        if proc.stdout.read_exact(&mut out).is_err() {
            *g = Some(None);
            return None;
        }
        Some(out)
    })
}
