//! /verif/known_findings.json — committed, never written at run time.

use serde::Deserialize;
use std::path::Path;

#[derive(Debug, Clone, Deserialize)]
pub struct Finding {
    pub property: String,
    pub signature: String,
    /// "open" or "fixed"
    pub status: String,
    #[serde(default)]
    pub commit: Option<String>,
    pub what_fails: String,
    #[serde(default)]
    pub replay: Option<String>,
}

#[derive(Debug, Deserialize)]
struct File {
    findings: Vec<Finding>,
}

pub fn load(path: &Path) -> Vec<Finding> {
    match std::fs::read_to_string(path) {
        Ok(t) => {
            match serde_json::from_str::<File>(&t) {
                Ok(f) => f.findings,
                Err(e) => {
                    eprintln!("known_findings.json does not parse: {e}");
                    std::process::exit(2);
                }
            }
        }
        Err(_) => Vec::new(),
    }
}
