//! Table: definitions-table id -> the game's dedicated module function (path B of C14) and its family.

use gamedig::protocols::{gamespy, quake, unreal2, valve};
use gamedig::GDResult;
use std::net::IpAddr;

pub type ValveFn = fn(&IpAddr, Option<u16>) -> GDResult<valve::game::Response>;

pub enum ModuleFn {
    Valve(ValveFn),
    Gs1(fn(&IpAddr, Option<u16>) -> GDResult<gamespy::one::Response>),
    Gs2(fn(&IpAddr, Option<u16>) -> GDResult<gamespy::two::Response>),
    Gs3(fn(&IpAddr, Option<u16>) -> GDResult<gamespy::three::Response>),
    Quake1(fn(&IpAddr, Option<u16>) -> GDResult<quake::Response<quake::one::Player>>),
    Quake23(fn(&IpAddr, Option<u16>) -> GDResult<quake::Response<quake::two::Player>>),
    Unreal2(fn(&IpAddr, Option<u16>) -> GDResult<unreal2::Response>),
    /// hand-written modules, dispatched by id in the property
    Special,
}

pub struct Module {
    /// id in the definitions table
    pub id: &'static str,
    /// module name under gamedig::games
    pub module: &'static str,
    pub f: ModuleFn,
}

macro_rules! v {
    ($($m:ident),* $(,)?) => { vec![$(Module { id: stringify!($m), module: stringify!($m), f: ModuleFn::Valve(gamedig::games::$m::query) }),*] };
}

pub fn modules() -> Vec<Module> {
    let mut m = v![
        abioticfactor, a2oa, basedefense, alienswarm, aoc, aapg, ase, asrd, atlas, avorion, ballisticoverkill, armareforger, avp2010,
        barotrauma, blackmesa, brainbread2, codbo3, codenamecure, colonysurvival, conanexiles, counterstrike, counterstrike2, creativerse,
        cscz, csgo, css, dab, dod, dods, doi, dst, enshrouded, garrysmod, hl2d, hlds, hll, imic, insurgency, insurgencysandstorm, l4d, l4d2,
        ohd, onset, postscriptum, projectzomboid, risingworld, ror2, rust, sco, sdtd, soulmask, squad, starbound, teamfortress2, tfc,
        theforest, thefront, unturned, valheim, vrising, zps, moe, mordhau, pvak2, nla, pixark,
    ];
    m.push(Module { id: "battlefield1942", module: "battlefield1942", f: ModuleFn::Gs1(gamedig::games::battlefield1942::query) });
    m.push(Module { id: "serioussam", module: "serioussam", f: ModuleFn::Gs1(gamedig::games::serioussam::query) });
    m.push(Module { id: "unrealtournament", module: "unrealtournament", f: ModuleFn::Gs1(gamedig::games::unrealtournament::query) });
    m.push(Module { id: "hce", module: "hce", f: ModuleFn::Gs2(gamedig::games::hce::query) });
    m.push(Module { id: "crysiswars", module: "crysiswars", f: ModuleFn::Gs3(gamedig::games::crysiswars::query) });
    m.push(Module { id: "quake1", module: "quake1", f: ModuleFn::Quake1(gamedig::games::quake1::query) });
    m.push(Module { id: "quake2", module: "quake2", f: ModuleFn::Quake23(gamedig::games::quake2::query) });
    m.push(Module { id: "q3a", module: "q3a", f: ModuleFn::Quake23(gamedig::games::q3a::query) });
    m.push(Module { id: "sof2", module: "sof2", f: ModuleFn::Quake23(gamedig::games::sof2::query) });
    m.push(Module { id: "warsow", module: "warsow", f: ModuleFn::Quake23(gamedig::games::warsow::query) });
    // same pretty names in games/definitions.rs and games/unreal2.rs
    m.push(Module { id: "dhe4445", module: "darkesthour", f: ModuleFn::Unreal2(gamedig::games::darkesthour::query) });
    m.push(Module { id: "devastation", module: "devastation", f: ModuleFn::Unreal2(gamedig::games::devastation::query) });
    m.push(Module { id: "killingfloor", module: "killingfloor", f: ModuleFn::Unreal2(gamedig::games::killingfloor::query) });
    m.push(Module { id: "redorchestra", module: "redorchestra", f: ModuleFn::Unreal2(gamedig::games::redorchestra::query) });
    m.push(Module { id: "unrealtournament2003", module: "ut2003", f: ModuleFn::Unreal2(gamedig::games::ut2003::query) });
    m.push(Module { id: "unrealtournament2004", module: "ut2004", f: ModuleFn::Unreal2(gamedig::games::ut2004::query) });
    for id in [
        "minecraft",
        "minecraftbedrock",
        "minecraftpocket",
        "minecraftjava",
        "minecraftlegacy16",
        "minecraftlegacy14",
        "minecraftlegacyb18",
        "battalion1944",
        "ffow",
        "savage2",
        "theship",
        "jc2m",
        "mindustry",
        "eco",
    ] {
        m.push(Module { id, module: id, f: ModuleFn::Special });
    }
    m
}

pub fn module_for(id: &str) -> Option<Module> { modules().into_iter().find(|m| m.id == id) }
