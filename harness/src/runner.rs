//! Generic engine: generation from proptest value trees (regenerable from an
//! index), enumerations, parallel execution, signature-keyed known findings,
//! shrinking, replay files, watchdog and evidence.

use proptest::strategy::{BoxedStrategy, Strategy, ValueTree};
use proptest::test_runner::{Config, RngAlgorithm, TestRng, TestRunner};
use serde::de::DeserializeOwned;
use serde::Serialize;
use serde_json::{json, Value};

use std::collections::{BTreeMap, HashSet};
use std::fmt::Debug;
use std::hash::{Hash, Hasher};
use std::io::Write;
use std::path::{Path, PathBuf};
use std::sync::atomic::{AtomicBool, AtomicU64, Ordering};
use std::sync::Mutex;
use std::time::{Duration, Instant};

use crate::findings::{self, Finding};
use crate::panics;

#[derive(Debug, Clone, Copy, PartialEq, Eq)]
pub enum Tier {
    Quick,
    Thorough,
}

impl Tier {
    pub fn name(self) -> &'static str {
        match self {
            Tier::Quick => "quick",
            Tier::Thorough => "thorough",
        }
    }
    pub fn pick<T>(self, quick: T, thorough: T) -> T {
        match self {
            Tier::Quick => quick,
            Tier::Thorough => thorough,
        }
    }
}

#[derive(Debug, Clone)]
pub struct Failure {
    /// `ID|entry|kind|where|class` — one signature, one root-cause candidate.
    pub signature: String,
    pub detail: Value,
}

#[derive(Debug, Clone, Default)]
pub struct Outcome {
    pub labels: Vec<String>,
    pub nontrivial: bool,
    pub failure: Option<Failure>,
    /// the case was (partly) excluded by construction because of an open known finding
    pub excluded: Option<String>,
}

impl Outcome {
    pub fn new() -> Self { Self::default() }
    pub fn label(&mut self, l: impl Into<String>) -> &mut Self {
        self.labels.push(l.into());
        self
    }
    pub fn fail(&mut self, signature: impl Into<String>, detail: Value) -> &mut Self {
        if self.failure.is_none() {
            self.failure = Some(Failure {
                signature: signature.into(),
                detail,
            });
        }
        self
    }
}

pub trait Prop: Sync + Send {
    type Case: Clone + Debug + Serialize + DeserializeOwned + Send + 'static;

    fn id(&self) -> &'static str;
    fn level(&self) -> &'static str { "exploration" }
    /// How cases are generated and what makes one non-trivial / distinct.
    fn rule(&self) -> String;
    fn assumptions(&self) -> Vec<String> { Vec::new() }
    /// Number of randomly generated cases for this tier.
    fn random_cases(&self, tier: Tier) -> u64;
    fn strategy(&self, tier: Tier) -> BoxedStrategy<Self::Case>;
    /// Deterministically enumerated cases (shard `shard` of `nshards`).
    fn enumerated<'a>(&'a self, _tier: Tier, _shard: usize, _nshards: usize) -> Box<dyn Iterator<Item = Self::Case> + 'a> {
        Box::new(std::iter::empty())
    }
    /// Description of finite sub-spaces that `enumerated` covers completely.
    fn exhaustive_subspaces(&self, _tier: Tier) -> Vec<String> { Vec::new() }
    fn run(&self, case: &Self::Case) -> Outcome;
    /// Extra keys for evidence.coverage, computed after the run.
    fn extra_evidence(&self) -> Value { json!({}) }
    /// Digest used to count distinct cases (default: hash of the JSON form).
    fn case_digest(&self, case: &Self::Case) -> u64 { digest(&serde_json::to_vec(case).unwrap_or_default()) }
    /// (max steps, max seconds) spent shrinking one failure.
    fn shrink_budget(&self) -> (usize, u64) { (3000, 20) }
    /// Run the exploration in worker processes (a case may abort the process).
    fn isolate(&self) -> bool { false }
    /// Maximum wall-clock seconds a single case may take before the watchdog trips.
    fn hang_secs(&self) -> u64 { 60 }
}

pub struct Opts {
    pub tier: Tier,
    pub seed: u64,
    pub threads: usize,
    pub verif_dir: PathBuf,
    pub replay: Option<PathBuf>,
    pub out: std::fs::File,
    /// worker process mode: (shard, total shards)
    pub worker: Option<(usize, usize)>,
    pub worker_dir: Option<PathBuf>,
    /// replay in this process even for isolated properties
    pub inproc: bool,
}

fn splitmix(x: &mut u64) -> u64 {
    *x = x.wrapping_add(0x9E37_79B9_7F4A_7C15);
    let mut z = *x;
    z = (z ^ (z >> 30)).wrapping_mul(0xBF58_476D_1CE4_E5B9);
    z = (z ^ (z >> 27)).wrapping_mul(0x94D0_49BB_1331_11EB);
    z ^ (z >> 31)
}

pub fn case_rng(seed: u64, id: &str, index: u64) -> TestRng {
    let mut h = std::collections::hash_map::DefaultHasher::new();
    id.hash(&mut h);
    let mut x = seed ^ h.finish().rotate_left(17) ^ index.wrapping_mul(0xD6E8_FEB8_6659_FD93);
    let mut bytes = [0u8; 32];
    for chunk in bytes.chunks_mut(8) {
        chunk.copy_from_slice(&splitmix(&mut x).to_le_bytes());
    }
    TestRng::from_seed(RngAlgorithm::ChaCha, &bytes)
}

pub fn digest(bytes: &[u8]) -> u64 {
    let mut h = std::collections::hash_map::DefaultHasher::new();
    bytes.hash(&mut h);
    h.finish()
}

fn short_hash(s: &str) -> String { format!("{:016x}", digest(s.as_bytes())) }

fn truncate_json(v: &Value, max: usize) -> Value {
    let s = v.to_string();
    if s.len() <= max {
        v.clone()
    } else {
        let mut end = max;
        while !s.is_char_boundary(end) {
            end -= 1;
        }
        json!({ "truncated_json": &s[..end], "full_len": s.len() })
    }
}

#[derive(Debug, Clone, Serialize, serde::Deserialize)]
struct Violation {
    signature: String,
    case: Value,
    detail: Value,
    origin: String,
    shrink_steps: usize,
}

#[derive(Default, Serialize, serde::Deserialize)]
struct Stats {
    evaluations: u64,
    nontrivial: u64,
    digests: HashSet<u64>,
    /// non-trivial cases beyond the digest cap (counted, not de-duplicated; reported separately)
    #[serde(default)]
    undigested: u64,
    hist: BTreeMap<String, u64>,
    samples: BTreeMap<String, Value>,
    known_hits: BTreeMap<String, u64>,
    excluded: BTreeMap<String, u64>,
    violations: Vec<Violation>,
    harness_errors: Vec<String>,
}

impl Stats {
    fn merge(&mut self, o: Stats) {
        self.evaluations += o.evaluations;
        self.nontrivial += o.nontrivial;
        self.digests.extend(o.digests);
        self.undigested += o.undigested;
        for (k, v) in o.hist {
            *self.hist.entry(k).or_default() += v;
        }
        for (k, v) in o.samples {
            self.samples.entry(k).or_insert(v);
        }
        for (k, v) in o.known_hits {
            *self.known_hits.entry(k).or_default() += v;
        }
        for (k, v) in o.excluded {
            *self.excluded.entry(k).or_default() += v;
        }
        self.violations.extend(o.violations);
        self.harness_errors.extend(o.harness_errors);
    }
}

struct Shared<C> {
    stop: AtomicBool,
    new_signatures: Mutex<HashSet<String>>,
    /// per worker: (start ms since t0, or 0 when idle), current case
    slots: Vec<(AtomicU64, Mutex<Option<C>>)>,
    t0: Instant,
}

const MAX_NEW_SIGNATURES: usize = 40;

/// Per worker bound on remembered case digests.
const DIGEST_CAP: usize = 4_000_000;

fn run_caught<P: Prop>(prop: &P, case: &P::Case) -> Result<Outcome, String> {
    match panics::catch(|| prop.run(case)) {
        Ok(o) => Ok(o),
        Err(p) => Err(format!("harness panic: {} at {}:{}", p.message, p.file, p.line)),
    }
}

struct Worker<'a, P: Prop> {
    prop: &'a P,
    known_open: &'a HashSet<String>,
    shared: &'a Shared<P::Case>,
    slot: usize,
    stats: Stats,
}

impl<'a, P: Prop> Worker<'a, P> {
    /// Process one case. Returns the failure signature if it is a NEW one (not known, not yet seen).
    fn process(&mut self, case: &P::Case, origin: &str) -> Option<Failure> {
        {
            let (start, cur) = &self.shared.slots[self.slot];
            if let Ok(mut g) = cur.lock() {
                *g = Some(case.clone());
            }
            start.store(self.shared.t0.elapsed().as_millis() as u64 + 1, Ordering::SeqCst);
        }
        let out = run_caught(self.prop, case);
        self.shared.slots[self.slot].0.store(0, Ordering::SeqCst);
        let out = match out {
            Ok(o) => o,
            Err(e) => {
                if self.stats.harness_errors.len() < 5 {
                    let bytes = serde_json::to_vec(case).unwrap_or_default();
                    self.stats
                        .harness_errors
                        .push(format!("{e}; case={}", String::from_utf8_lossy(&bytes[.. bytes.len().min(600)])));
                }
                self.shared.stop.store(true, Ordering::SeqCst);
                return None;
            }
        };
        self.stats.evaluations += 1;
        if out.nontrivial {
            self.stats.nontrivial += 1;
            // the digest set is bounded (8 bytes x billions of enumerated cases would exhaust memory)
            if self.stats.digests.len() < DIGEST_CAP {
                self.stats.digests.insert(self.prop.case_digest(case));
            } else {
                self.stats.undigested += 1;
            }
        }
        if let Some(e) = &out.excluded {
            *self.stats.excluded.entry(e.clone()).or_default() += 1;
        }
        for l in &out.labels {
            let n = self.stats.hist.entry(l.clone()).or_default();
            *n += 1;
            if *n == 1 && self.stats.samples.len() < 40 {
                let v: Value = serde_json::to_value(case).unwrap_or(Value::Null);
                self.stats
                    .samples
                    .insert(l.clone(), json!({"class": l, "origin": origin, "case": truncate_json(&v, 1500)}));
            }
        }
        if let Some(f) = out.failure {
            if self.known_open.contains(&f.signature) {
                *self.stats.known_hits.entry(f.signature.clone()).or_default() += 1;
                return None;
            }
            let mut seen = self.shared.new_signatures.lock().unwrap();
            if seen.contains(&f.signature) {
                return None;
            }
            seen.insert(f.signature.clone());
            if seen.len() >= MAX_NEW_SIGNATURES {
                self.shared.stop.store(true, Ordering::SeqCst);
            }
            return Some(f);
        }
        None
    }

    fn record(&mut self, f: Failure, case: &P::Case, origin: String, shrink_steps: usize) {
        self.stats.violations.push(Violation {
            signature: f.signature,
            case: serde_json::to_value(case).unwrap_or(Value::Null),
            detail: f.detail,
            origin,
            shrink_steps,
        });
    }

    /// Shrink a failing tree under "still fails with the same signature".
    fn shrink(&mut self, tree: &mut impl ValueTree<Value = P::Case>, first: Failure) -> (P::Case, Failure, usize) {
        let mut best_case = tree.current();
        let mut best = first.clone();
        let mut steps = 0usize;
        let (max_steps, max_secs) = self.prop.shrink_budget();
        let deadline = Instant::now() + Duration::from_secs(max_secs);
        if tree.simplify() {
            loop {
                steps += 1;
                if steps > max_steps || Instant::now() > deadline {
                    break;
                }
                let cur = tree.current();
                let same = match run_caught(self.prop, &cur) {
                    Ok(o) => {
                        match o.failure {
                            Some(f) if f.signature == first.signature => Some(f),
                            _ => None,
                        }
                    }
                    Err(_) => None,
                };
                match same {
                    Some(f) => {
                        best_case = cur;
                        best = f;
                        if !tree.simplify() {
                            break;
                        }
                    }
                    None => {
                        if !tree.complicate() {
                            break;
                        }
                    }
                }
            }
        }
        (best_case, best, steps)
    }
}

pub fn replay_one<P: Prop>(prop: &P, path: &Path, out: &mut std::fs::File) -> i32 {
    let text = match std::fs::read_to_string(path) {
        Ok(t) => t,
        Err(e) => {
            let _ = writeln!(out, "cannot read replay {}: {e}", path.display());
            return 2;
        }
    };
    let v: Value = match serde_json::from_str(&text) {
        Ok(v) => v,
        Err(e) => {
            let _ = writeln!(out, "cannot parse replay {}: {e}", path.display());
            return 2;
        }
    };
    let case: P::Case = match serde_json::from_value(v["case"].clone()) {
        Ok(c) => c,
        Err(e) => {
            let _ = writeln!(out, "replay {} does not hold a {} case: {e}", path.display(), prop.id());
            return 2;
        }
    };
    match run_caught(prop, &case) {
        Ok(o) => {
            match o.failure {
                Some(f) => {
                    let _ = writeln!(out, "replay {}: FAILS signature={}", path.display(), f.signature);
                    let _ = writeln!(out, "detail: {}", f.detail);
                    let _ = writeln!(out, "VIOLATION property={} replay={}", prop.id(), path.display());
                    1
                }
                None => {
                    let _ = writeln!(out, "replay {}: passes (labels {:?})", path.display(), o.labels);
                    0
                }
            }
        }
        Err(e) => {
            let _ = writeln!(out, "replay {}: {e}", path.display());
            2
        }
    }
}

/// Which part of the work a process does.
struct Part {
    /// first global shard of this process
    base: usize,
    /// total number of shards
    total: usize,
    /// threads in this process (each takes one shard: base, base+1, ...)
    threads: usize,
    regression: bool,
    /// progress file: (phase, index) of the case about to run, for attributing an abort
    progress: Option<std::fs::File>,
}

const PHASE_REGRESSION: u64 = 0;
const PHASE_ENUM: u64 = 1;
const PHASE_RANDOM: u64 = 2;

fn note_progress(f: &Option<std::fs::File>, phase: u64, index: u64) {
    use std::os::unix::fs::FileExt;
    if let Some(f) = f {
        let mut b = [0u8; 16];
        b[.. 8].copy_from_slice(&phase.to_le_bytes());
        b[8 ..].copy_from_slice(&index.to_le_bytes());
        let _ = f.write_all_at(&b, 0);
    }
}

fn replay_files(opts: &Opts, id: &str) -> Vec<PathBuf> {
    let replay_dir = opts.verif_dir.join("replays").join(id);
    let mut files: Vec<PathBuf> = std::fs::read_dir(&replay_dir)
        .map(|rd| {
            rd.filter_map(|e| e.ok())
                .map(|e| e.path())
                .filter(|p| p.extension().map(|x| x == "json").unwrap_or(false))
                .collect()
        })
        .unwrap_or_default();
    files.sort();
    files
}

fn load_case<P: Prop>(path: &Path) -> Option<P::Case> {
    let text = std::fs::read_to_string(path).ok()?;
    let v: Value = serde_json::from_str(&text).ok()?;
    serde_json::from_value::<P::Case>(v["case"].clone()).ok()
}

fn explore<P: Prop>(prop: &P, opts: &mut Opts, part: Part, known_open: &HashSet<String>, t0: Instant) -> (Stats, u64) {
    let id = prop.id();
    let nthreads = part.threads.max(1);
    let shared: Shared<P::Case> = Shared {
        stop: AtomicBool::new(false),
        new_signatures: Mutex::new(HashSet::new()),
        slots: (0 .. nthreads + 1)
            .map(|_| (AtomicU64::new(0), Mutex::new(None)))
            .collect(),
        t0,
    };
    let mut total = Stats::default();
    let progress = &part.progress;

    // ---- regression tier: committed replay files ---------------------------------
    let mut regression_run = 0u64;
    if part.regression {
        let mut w = Worker {
            prop,
            known_open,
            shared: &shared,
            slot: nthreads,
            stats: Stats::default(),
        };
        for (k, path) in replay_files(opts, id).iter().enumerate() {
            let Some(case) = load_case::<P>(path) else {
                w.stats
                    .harness_errors
                    .push(format!("replay {} does not deserialise", path.display()));
                continue;
            };
            regression_run += 1;
            note_progress(progress, PHASE_REGRESSION, k as u64);
            if let Some(f) = w.process(&case, "regression") {
                w.record(f, &case, format!("regression:{}", path.display()), 0);
            }
        }
        total.merge(w.stats);
    }

    // ---- main exploration ---------------------------------------------------------
    let n_random = prop.random_cases(opts.tier);
    let seed = opts.seed;
    let tier = opts.tier;
    let hang_secs = prop.hang_secs();
    let done = AtomicBool::new(false);
    let hang: Mutex<Option<(Vec<u8>, u64)>> = Mutex::new(None);
    let (base, nshards) = (part.base, part.total.max(1));

    std::thread::scope(|s| {
        let mut handles = Vec::new();
        for t in 0 .. nthreads {
            let shared = &shared;
            handles.push(
                std::thread::Builder::new()
                    .name(format!("gdv-{t}"))
                    .stack_size(16 << 20)
                    .spawn_scoped(s, move || {
                        let shard = base + t;
                        let mut w = Worker {
                            prop,
                            known_open,
                            shared,
                            slot: t,
                            stats: Stats::default(),
                        };
                        // enumerated cases
                        for (k, case) in prop.enumerated(tier, shard, nshards).enumerate() {
                            if shared.stop.load(Ordering::Relaxed) {
                                break;
                            }
                            note_progress(progress, PHASE_ENUM, k as u64);
                            if let Some(f) = w.process(&case, "enumerated") {
                                w.record(f, &case, format!("enumerated shard {shard} #{k}"), 0);
                            }
                        }
                        // random cases
                        let strategy = prop.strategy(tier);
                        let mut i = shard as u64;
                        while i < n_random {
                            if shared.stop.load(Ordering::Relaxed) {
                                break;
                            }
                            note_progress(progress, PHASE_RANDOM, i);
                            let mut runner = TestRunner::new_with_rng(
                                Config {
                                    failure_persistence: None,
                                    ..Config::default()
                                },
                                case_rng(seed, id, i),
                            );
                            match strategy.new_tree(&mut runner) {
                                Ok(mut tree) => {
                                    let case = tree.current();
                                    if let Some(f) = w.process(&case, "random") {
                                        let (c, f2, steps) = w.shrink(&mut tree, f);
                                        w.record(f2, &c, format!("random index {i} seed {seed}"), steps);
                                    }
                                }
                                Err(e) => {
                                    w.stats
                                        .harness_errors
                                        .push(format!("generator rejected case {i}: {e}"));
                                }
                            }
                            i += nshards as u64;
                        }
                        w.stats
                    })
                    .expect("spawn worker"),
            );
        }
        // watchdog
        let shared = &shared;
        let done_ref = &done;
        let hang_ref = &hang;
        let wd = s.spawn(move || {
            while !done_ref.load(Ordering::SeqCst) {
                std::thread::sleep(Duration::from_millis(250));
                let now = shared.t0.elapsed().as_millis() as u64 + 1;
                for (start, cur) in shared.slots.iter() {
                    let st = start.load(Ordering::SeqCst);
                    if st != 0 && now > st && now - st > hang_secs * 1000 {
                        let bytes = cur
                            .lock()
                            .ok()
                            .and_then(|g| g.as_ref().map(|c| serde_json::to_vec(c).unwrap_or_default()))
                            .unwrap_or_default();
                        *hang_ref.lock().unwrap() = Some((bytes, now - st));
                        return;
                    }
                }
            }
        });
        let mut results = Vec::new();
        for h in handles {
            // poll so that a hang can be acted upon
            loop {
                if h.is_finished() {
                    results.push(h.join());
                    break;
                }
                if hang.lock().unwrap().is_some() {
                    // a worker is stuck; we cannot join. Handle and exit the process.
                    let (bytes, ms) = hang.lock().unwrap().clone().unwrap();
                    handle_hang(prop, opts, &bytes, ms);
                }
                std::thread::sleep(Duration::from_millis(20));
            }
        }
        done.store(true, Ordering::SeqCst);
        let _ = wd.join();
        for r in results {
            match r {
                Ok(st) => total.merge(st),
                Err(_) => total.harness_errors.push("worker thread panicked".into()),
            }
        }
    });
    (total, regression_run)
}

/// Case that a dead worker process was running, reconstructed from its progress record.
fn case_at<P: Prop>(prop: &P, opts: &Opts, shard: usize, nshards: usize, phase: u64, index: u64) -> Option<(P::Case, String)> {
    match phase {
        PHASE_REGRESSION => {
            let files = replay_files(opts, prop.id());
            let p = files.get(index as usize)?;
            Some((load_case::<P>(p)?, format!("regression:{}", p.display())))
        }
        PHASE_ENUM => prop.enumerated(opts.tier, shard, nshards).nth(index as usize).map(|c| (c, format!("enumerated shard {shard} #{index}"))),
        _ => {
            let strategy = prop.strategy(opts.tier);
            let mut runner = TestRunner::new_with_rng(
                Config {
                    failure_persistence: None,
                    ..Config::default()
                },
                case_rng(opts.seed, prop.id(), index),
            );
            strategy.new_tree(&mut runner).ok().map(|t| (t.current(), format!("random index {index} seed {}", opts.seed)))
        }
    }
}

fn supervise<P: Prop>(prop: &P, opts: &mut Opts, _t0: Instant) -> (Stats, u64) {
    let id = prop.id();
    let k = opts.threads.max(1);
    let dir = opts.verif_dir.join("harness").join("target").join("tmp").join(format!("{id}-{}", std::process::id()));
    let _ = std::fs::create_dir_all(&dir);
    let exe = std::env::current_exe().unwrap_or_else(|_| PathBuf::from("gdv"));
    let mut children = Vec::new();
    for p in 0 .. k {
        let mut cmd = std::process::Command::new(&exe);
        cmd.arg(id)
            .arg("--tier")
            .arg(opts.tier.name())
            .arg("--seed")
            .arg(opts.seed.to_string())
            .arg("--verif-dir")
            .arg(&opts.verif_dir)
            .arg("--worker")
            .arg(format!("{p}/{k}"))
            .arg("--worker-dir")
            .arg(&dir);
        if let Ok(o) = opts.out.try_clone() {
            cmd.stdout(std::process::Stdio::from(o));
        }
        if let Ok(e) = std::fs::File::create(dir.join(format!("stderr-{p}.txt"))) {
            cmd.stderr(std::process::Stdio::from(e));
        }
        match cmd.spawn() {
            Ok(c) => children.push((p, c)),
            Err(e) => {
                let mut st = Stats::default();
                st.harness_errors.push(format!("cannot spawn worker process: {e}"));
                return (st, 0);
            }
        }
    }
    let mut total = Stats::default();
    let mut regression_run = 0;
    for (p, mut c) in children {
        let status = c.wait();
        let result = std::fs::read(dir.join(format!("result-{p}.json")))
            .ok()
            .and_then(|b| serde_json::from_slice::<(Stats, u64)>(&b).ok());
        let clean = matches!(&status, Ok(s) if s.success());
        match (clean, result) {
            (true, Some((st, reg))) => {
                total.merge(st);
                regression_run += reg;
            }
            _ => {
                let code = status.as_ref().ok().and_then(|s| s.code());
                if code == Some(1) || code == Some(2) {
                    // the worker reported on its own (hang confirmed -> 1, inconclusive -> 2)
                    if code == Some(1) {
                        total.violations.push(Violation {
                            signature: format!("{id}|hang|reported by worker {p}"),
                            case: Value::Null,
                            detail: json!({"note": "see the VIOLATION line printed by the worker"}),
                            origin: format!("worker {p}"),
                            shrink_steps: 0,
                        });
                    } else {
                        total.harness_errors.push(format!("worker {p} ended inconclusive"));
                    }
                    continue;
                }
                // abnormal death: attribute it to the case it was running
                use std::os::unix::process::ExitStatusExt;
                let how = match &status {
                    Ok(s) => {
                        match (s.signal(), s.code()) {
                            (Some(sig), _) => format!("signal {sig}"),
                            (_, Some(c)) => format!("exit status {c}"),
                            _ => "unknown".into(),
                        }
                    }
                    Err(e) => format!("wait failed: {e}"),
                };
                let stderr = std::fs::read_to_string(dir.join(format!("stderr-{p}.txt"))).unwrap_or_default();
                let first = stderr.lines().find(|l| !l.trim().is_empty()).unwrap_or("").to_string();
                let prog = std::fs::read(dir.join(format!("progress-{p}"))).unwrap_or_default();
                if prog.len() == 16 {
                    let phase = u64::from_le_bytes(prog[.. 8].try_into().unwrap());
                    let index = u64::from_le_bytes(prog[8 ..].try_into().unwrap());
                    match case_at(prop, opts, p, k, phase, index) {
                        Some((case, origin)) => {
                            total.violations.push(Violation {
                                signature: format!("{id}|abort|{how}|{}", panics::normalise(&first)),
                                case: serde_json::to_value(&case).unwrap_or(Value::Null),
                                detail: json!({"process_ended_with": how, "stderr": stderr.lines().take(6).collect::<Vec<_>>()}),
                                origin,
                                shrink_steps: 0,
                            });
                        }
                        None => total.harness_errors.push(format!("worker {p} died ({how}) and its case could not be reconstructed")),
                    }
                } else {
                    total.harness_errors.push(format!("worker {p} died ({how}) before its first case: {first}"));
                }
            }
        }
    }
    let _ = std::fs::remove_dir_all(&dir);
    (total, regression_run)
}

pub fn run_prop<P: Prop>(prop: &P, opts: &mut Opts) -> i32 {
    panics::init();
    if let Some(path) = opts.replay.clone() {
        if prop.isolate() && !opts.inproc {
            return replay_isolated(prop, &path, opts);
        }
        return replay_one(prop, &path, &mut opts.out);
    }
    let id = prop.id();
    let t0 = Instant::now();
    let all_findings = findings::load(&opts.verif_dir.join("known_findings.json"));
    let mine: Vec<Finding> = all_findings.into_iter().filter(|f| f.property == id).collect();
    let known_open: HashSet<String> = mine
        .iter()
        .filter(|f| f.status == "open")
        .map(|f| f.signature.clone())
        .collect();

    if let Some((p, k)) = opts.worker {
        // worker process: one shard, results go to a file
        let dir = opts.worker_dir.clone().unwrap_or_else(|| PathBuf::from("."));
        let progress = std::fs::File::create(dir.join(format!("progress-{p}"))).ok();
        let part = Part {
            base: p,
            total: k,
            threads: 1,
            regression: p == 0,
            progress,
        };
        let (stats, reg) = explore(prop, opts, part, &known_open, t0);
        let bytes = serde_json::to_vec(&(stats, reg)).unwrap_or_default();
        let _ = std::fs::write(dir.join(format!("result-{p}.json")), bytes);
        return 0;
    }

    let (total, regression_run) = if prop.isolate() {
        supervise(prop, opts, t0)
    } else {
        let n = opts.threads.max(1);
        let part = Part {
            base: 0,
            total: n,
            threads: n,
            regression: true,
            progress: None,
        };
        explore(prop, opts, part, &known_open, t0)
    };
    finish(prop, opts, total, &mine, regression_run, t0)
}

/// Replay in a child process so that an abort is reported instead of killing the checker.
fn replay_isolated<P: Prop>(prop: &P, path: &Path, opts: &mut Opts) -> i32 {
    use std::os::unix::process::ExitStatusExt;
    let exe = std::env::current_exe().unwrap_or_else(|_| PathBuf::from("gdv"));
    let mut cmd = std::process::Command::new(exe);
    cmd.arg(prop.id()).arg("--replay").arg(path).arg("--inproc").arg("--verif-dir").arg(&opts.verif_dir);
    if let Ok(o) = opts.out.try_clone() {
        cmd.stdout(std::process::Stdio::from(o));
    }
    match cmd.status() {
        Ok(s) => {
            match (s.code(), s.signal()) {
                (Some(c), _) if c <= 2 => c,
                (c, sig) => {
                    let _ = writeln!(opts.out, "replay {}: the process died (status {c:?}, signal {sig:?})", path.display());
                    let _ = writeln!(opts.out, "VIOLATION property={} replay={}", prop.id(), path.display());
                    1
                }
            }
        }
        Err(e) => {
            let _ = writeln!(opts.out, "cannot start the replay process: {e}");
            2
        }
    }
}

fn handle_hang<P: Prop>(prop: &P, opts: &mut Opts, case_bytes: &[u8], ms: u64) -> ! {
    let id = prop.id();
    let dir = opts.verif_dir.join("out").join("replays").join(id);
    let _ = std::fs::create_dir_all(&dir);
    let case: Value = serde_json::from_slice(case_bytes).unwrap_or(Value::Null);
    let sig = format!("{id}|hang|case did not return within watchdog");
    let path = dir.join(format!("hang-{}.json", short_hash(&case.to_string())));
    let doc = json!({"property": id, "signature": sig, "seed": opts.seed, "case": case, "detail": {"stuck_ms": ms}});
    let _ = std::fs::write(&path, serde_json::to_string_pretty(&doc).unwrap_or_default());
    // confirm in a fresh process
    let exe = std::env::current_exe().unwrap_or_else(|_| PathBuf::from("gdv"));
    let mut child = match std::process::Command::new(exe)
        .arg(id)
        .arg("--replay")
        .arg(&path)
        .stdout(std::process::Stdio::null())
        .stderr(std::process::Stdio::null())
        .spawn()
    {
        Ok(c) => c,
        Err(e) => {
            let _ = writeln!(opts.out, "INCONCLUSIVE property={id} watchdog tripped and confirmation could not start: {e}");
            std::process::exit(2);
        }
    };
    let deadline = Instant::now() + Duration::from_secs(prop.hang_secs().min(60));
    loop {
        match child.try_wait() {
            Ok(Some(_)) => {
                let _ = writeln!(
                    opts.out,
                    "INCONCLUSIVE property={id} watchdog tripped after {ms} ms but the case returns in a fresh process (replay {})",
                    path.display()
                );
                std::process::exit(2);
            }
            Ok(None) => {
                if Instant::now() > deadline {
                    let _ = child.kill();
                    let _ = writeln!(opts.out, "hang confirmed in a fresh process: {sig}");
                    let _ = writeln!(opts.out, "VIOLATION property={id} replay={}", path.display());
                    write_minimal_evidence(prop, opts, 1, &sig);
                    std::process::exit(1);
                }
                std::thread::sleep(Duration::from_millis(100));
            }
            Err(_) => std::process::exit(2),
        }
    }
}

fn write_minimal_evidence<P: Prop>(prop: &P, opts: &Opts, violations: i64, note: &str) {
    let ev = json!({
        "property_id": prop.id(), "tier": opts.tier.name(), "seed": opts.seed, "level": prop.level(),
        "coverage": {"evaluations": 1, "distinct_nontrivial": 0, "rule": prop.rule(), "samples": [note], "aborted": note},
        "wall_s": 0.0, "violations": violations
    });
    let dir = opts.verif_dir.join("evidence");
    let _ = std::fs::create_dir_all(&dir);
    let _ = std::fs::write(dir.join(format!("{}.json", prop.id())), serde_json::to_string_pretty(&ev).unwrap_or_default());
}

fn finish<P: Prop>(prop: &P, opts: &mut Opts, total: Stats, mine: &[Finding], regression_run: u64, t0: Instant) -> i32 {
    let id = prop.id();
    let wall = t0.elapsed().as_secs_f64();
    // violations -> replay files
    let out_dir = opts.verif_dir.join("out").join("replays").join(id);
    let mut violation_lines = Vec::new();
    // one violation per signature
    let mut by_sig: BTreeMap<String, Violation> = BTreeMap::new();
    for v in total.violations {
        by_sig.entry(v.signature.clone()).or_insert(v);
    }
    for (sig, v) in &by_sig {
        let _ = std::fs::create_dir_all(&out_dir);
        let path = out_dir.join(format!("{}.json", short_hash(sig)));
        let doc = json!({
            "property": id, "signature": sig, "seed": opts.seed, "tier": opts.tier.name(),
            "origin": v.origin, "shrink_steps": v.shrink_steps,
            "case": v.case, "detail": v.detail,
        });
        let _ = std::fs::write(&path, serde_json::to_string_pretty(&doc).unwrap_or_default());
        violation_lines.push((sig.clone(), path, truncate_json(&v.detail, 700)));
    }

    let samples: Vec<Value> = total.samples.values().take(24).cloned().collect();
    let mut coverage = json!({
        "evaluations": total.evaluations,
        "distinct_nontrivial": total.digests.len(),
        "nontrivial_evaluations": total.nontrivial,
        "nontrivial_beyond_digest_cap": total.undigested,
        "rule": prop.rule(),
        "samples": samples,
        "class_histogram": total.hist,
        "known_finding_hits": total.known_hits,
        "excluded_by_construction": total.excluded,
        "regression_replays_run": regression_run,
        "random_cases_requested": prop.random_cases(opts.tier),
        "exhaustive": false,
        "exhaustive_subspaces": prop.exhaustive_subspaces(opts.tier),
        "threads": opts.threads,
        "violating_signatures": by_sig.keys().collect::<Vec<_>>(),
    });
    if let (Some(obj), Value::Object(extra)) = (coverage.as_object_mut(), prop.extra_evidence()) {
        for (k, v) in extra {
            obj.insert(k, v);
        }
    }
    let ev = json!({
        "property_id": id,
        "tier": opts.tier.name(),
        "seed": opts.seed,
        "level": prop.level(),
        "coverage": coverage,
        "assumptions": prop.assumptions(),
        "wall_s": wall,
        "violations": by_sig.len(),
    });
    let ev_dir = opts.verif_dir.join("evidence");
    let _ = std::fs::create_dir_all(&ev_dir);
    let _ = std::fs::write(ev_dir.join(format!("{id}.json")), serde_json::to_string_pretty(&ev).unwrap_or_default());

    let out = &mut opts.out;
    let _ = writeln!(
        out,
        "{id} {}: {} cases ({} distinct non-trivial), {} regression replays, {:.1}s, seed {}",
        opts.tier.name(),
        total.evaluations,
        total.digests.len(),
        regression_run,
        wall,
        opts.seed
    );
    for f in mine.iter().filter(|f| f.status == "open") {
        let hits = total.known_hits.get(&f.signature).copied().unwrap_or(0);
        let _ = writeln!(out, "KNOWN-FINDING: property={id} {} [signature {}; hits this run: {hits}]", f.what_fails, f.signature);
    }
    if !total.harness_errors.is_empty() {
        for e in total.harness_errors.iter().take(5) {
            let _ = writeln!(out, "HARNESS-ERROR: {e}");
        }
        let _ = writeln!(out, "INCONCLUSIVE property={id} (harness error)");
        if violation_lines.is_empty() {
            return 2;
        }
    }
    if violation_lines.is_empty() {
        return 0;
    }
    for (sig, path, detail) in &violation_lines {
        let _ = writeln!(out, "violation signature: {sig}");
        let _ = writeln!(out, "  detail: {detail}");
        let _ = writeln!(out, "VIOLATION property={id} replay={}", path.display());
    }
    1
}

/// Draw one value from a strategy with a fixed, index-derived seed (for enumerated classes).
pub fn sample_one<S: Strategy>(strategy: &S, tag: &str, index: u64) -> S::Value {
    let mut runner = TestRunner::new_with_rng(
        Config {
            failure_persistence: None,
            ..Config::default()
        },
        case_rng(0x5EED, tag, index),
    );
    strategy
        .new_tree(&mut runner)
        .expect("strategy must not reject")
        .current()
}
