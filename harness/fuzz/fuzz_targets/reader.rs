//! Coverage-guided companion of C17: libFuzzer mutates the byte form of a packet-reader case (operation
//! sequence + packet, VarInt bytes, or a string); the oracle is the reference reader of the proptest check.
#![no_main]
use libfuzzer_sys::fuzz_target;

fuzz_target!(|data: &[u8]| {
    if data.len() < 2 {
        return;
    }
    if let Some((signature, detail, case)) = gdv::props::c17::fuzz_one(data) {
        let dir = std::env::var("GDV_FUZZ_OUT").unwrap_or_else(|_| "/verif/out/replays".into());
        let dir = std::path::Path::new(&dir).join("C17");
        let _ = std::fs::create_dir_all(&dir);
        let name = format!("fuzz-{:016x}.json", gdv::runner::digest(signature.as_bytes()));
        let doc = serde_json::json!({"property": "C17", "signature": signature, "seed": 0, "tier": "thorough", "origin": "libFuzzer", "shrink_steps": 0, "case": case, "detail": detail});
        let path = dir.join(name);
        let _ = std::fs::write(&path, serde_json::to_string_pretty(&doc).unwrap_or_default());
        eprintln!("FUZZ-VIOLATION property=C17 signature={signature} replay={}", path.display());
        std::process::abort();
    }
});
