//! Coverage-guided companion of C01 / C13: libFuzzer mutates the byte form of a hostile-server case
//! (entry point, retries, reply script); the oracles are the ones of the proptest checks
//! (no panic, no runaway, allocation bounds, bounded sends). A failing case is written as a replay
//! file for `check.sh <ID> replay` before the process aborts.
#![no_main]
use libfuzzer_sys::fuzz_target;

#[global_allocator]
static GLOBAL: gdv::alloc::Counting = gdv::alloc::Counting;

/// Signatures of open known findings (they are reported by the proptest tier; the campaign goes on past them).
fn known_open() -> &'static std::collections::HashSet<String> {
    static K: std::sync::OnceLock<std::collections::HashSet<String>> = std::sync::OnceLock::new();
    K.get_or_init(|| {
        let path = std::env::var("GDV_KNOWN_FINDINGS").unwrap_or_else(|_| "/verif/known_findings.json".into());
        let mut set = std::collections::HashSet::new();
        if let Ok(text) = std::fs::read_to_string(path) {
            if let Ok(v) = serde_json::from_str::<serde_json::Value>(&text) {
                for f in v["findings"].as_array().cloned().unwrap_or_default() {
                    if f["status"] == "open" {
                        if let Some(s) = f["signature"].as_str() {
                            set.insert(s.to_string());
                        }
                    }
                }
            }
        }
        set
    })
}

fuzz_target!(|data: &[u8]| {
    if data.len() < 10 {
        return;
    }
    if let Some((prop, signature, detail, case)) = gdv::props::hostile::fuzz_one(data) {
        if known_open().contains(&signature) {
            return;
        }
        let dir = std::env::var("GDV_FUZZ_OUT").unwrap_or_else(|_| "/verif/out/replays".into());
        let dir = std::path::Path::new(&dir).join(prop);
        let _ = std::fs::create_dir_all(&dir);
        let name = format!("fuzz-{:016x}.json", gdv::runner::digest(signature.as_bytes()));
        let doc = serde_json::json!({"property": prop, "signature": signature, "seed": 0, "tier": "thorough", "origin": "libFuzzer", "shrink_steps": 0, "case": case, "detail": detail});
        let path = dir.join(name);
        let _ = std::fs::write(&path, serde_json::to_string_pretty(&doc).unwrap_or_default());
        eprintln!("FUZZ-VIOLATION property={prop} signature={signature} replay={}", path.display());
        std::process::abort();
    }
});
