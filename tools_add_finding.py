#!/usr/bin/env python3
"""usage: tools_add_finding.py PROPERTY STATUS COMMIT SIGNATURE WHAT [REPLAY]  (maintenance helper, not used by checks)"""
import json,sys
prop,status,commit,sig,what=sys.argv[1:6]
replay=sys.argv[6] if len(sys.argv)>6 else None
d=json.load(open('/verif/known_findings.json'))
e={"property":prop,"signature":sig,"status":status,"what_fails":what}
if commit and commit!='-': e["commit"]=commit
if status=="fixed": e["record"]=f"fixed: property={prop} {commit} {what}"
if replay: e["replay"]=replay
d["findings"].append(e)
json.dump(d,open('/verif/known_findings.json','w'),indent=2)
