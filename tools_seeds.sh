#!/bin/bash
# usage: tools_seeds.sh "<ids>" "<seeds>"   — silence check on the unchanged tree over several seeds
IDS="${1:-$(python3 -c "import json;print(' '.join(c['property_id'] for c in json.load(open('/verif/MANIFEST.json'))['checks']))")}"
SEEDS="${2:-1 2 3 4 5}"
bad=0
for id in $IDS; do for s in $SEEDS; do
  out=$(VERIF_SEED=$s /verif/check.sh $id quick 2>&1); rc=$?
  if [ $rc -ne 0 ]; then echo "!! $id seed $s rc=$rc"; echo "$out" | grep -E "violation sig|VIOLATION|INCONCLUSIVE|HARNESS" | head -5; bad=1; else echo "ok $id seed $s: $(echo "$out" | head -1 | cut -c1-110)"; fi
done; done
exit $bad
