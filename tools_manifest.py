#!/usr/bin/env python3
"""Regenerates MANIFEST.json (maintenance helper; the checks do not use it)."""
import json, subprocess
PBT="property-based testing (proptest generators + own runner, model-based oracle, shrinking to a replay file)"
C={
 "C01":("exploration","hostile reply scripts (recorded valid exchanges mutated at byte / field / datagram level, magic-prefixed random bytes, pure random) are served to every public query entry point (protocol functions, generic dispatch for every table game, every game module) with retries 0-2; any panic (overflow checks on), runaway transport use or non-return is a violation; sampled, never exhaustive","trusts the scripted transport's fidelity to loopback sockets; eco/HTTP is outside the scripted enumeration","property-based testing / structure-aware mutation fuzzing with a totality oracle (panic hook, operation budget, watchdog)","§2 C01"),
 "C02":("exploration","random A2S server states (all engines, all 32 EDF masks enumerated, obsolete GoldSrc layout, The Ship, 0-255 players, up to 65535 rules) under random transports (challenge rounds, Source/GoldSrc split, bzip2-compressed split) are served by a reactive reference server; valve::query and ten per-game wrappers are compared field for field with the expected response","trusts the reference encoder written from the Valve Server Queries document; points taken from the implementation are listed as assumptions in the evidence; python3 bz2 is the independent compressor",PBT,"§2 C02"),
 "C03":("exploration","random Java/Bedrock/legacy statuses served by a reference server that speaks a subset of the five variants; specific queries compared field for field, auto-detect checked for result, label and the order of connections/requests on the wire; all 32 subsets enumerated in every run","trusts the reference encoders (Server List Ping, RakNet unconnected pong, legacy kick packets); Java description compared as parsed JSON",PBT+" + exhaustive enumeration of the 32 variant subsets","§2 C03"),
 "C04":("exploration","random GameSpy 1/2/3 server states are encoded by independent reference encoders (multi-part GS1, GS2 tables, GS3 handshake + splitnum packets with fields continued across packets) and query / query_vars results are compared with the expected response and the exact pair set","no formal specification exists; encoders follow the node-gamedig reading (assumptions listed in the evidence)",PBT,"§2 C04"),
 "C05":("exploration","random Quake 1/2/3 server states are encoded by an independent reference encoder, served through the scripted transport, and the query result is compared field for field with the expected response; sampled, not exhaustive","trusts the reference encoder's reading of the Quake status format (space-tokenised player lines, newline-terminated lines)",PBT,"§2 C05"),
 "C06":("exploration","random Unreal 2 server states (Latin-1 / UCS-2 strings with colour escapes and control codes, repeated rule keys, mutators, bots, 1-6+ datagrams per list) are encoded by a reference encoder; the query result must equal the response computed from the characters the model chose; every length-byte value and the BOM look-alike strings are enumerated in every run","trusts the reference encoder; UCS-2 strings whose first byte is 01 are sent in the 'stray 01' form because no reader can tell the two apart",PBT,"§2 C06"),
 "C07":("exploration","random well-formed replies of the six single-game UDP formats over the scripted transport and of Eco over a real loopback HTTP server; every response field compared with the value the model put on the wire (table written from the types' documentation), overrides and failure conditions included","trusts the per-game encoders (layout points taken from the implementation are listed as assumptions); Eco floats compared with 1e-12 relative tolerance",PBT,"§2 C07"),
 "C13":("exploration","the hostile reply scripts of C01, biased towards extreme values in numeric positions (binary and decimal), plus deterministic compressed-split cases with declared sizes up to 4 GiB and a real bzip2 bomb; a counting global allocator armed around each query checks peak live <= 64 MiB, largest request <= 16 MiB and the send bound; cases run in worker processes under an address-space limit so that an allocation failure is attributed to its case","allocations of other threads / the OS are invisible; the harness's own transport copies are counted (a few MiB at most)","property-based testing / mutation fuzzing with a resource oracle (counting allocator, process isolation)","§2 C13"),
 "C17":("exploration","every operation of generated operation sequences on generated packets is compared with a 60-line reference reader (value, position, bounds); the small scope (packets <=3/4 bytes over a 6-symbol alphabet x sequences <=3/4 ops x LE/BE) is enumerated completely, longer packets/sequences are sampled; VarInt round trip is exhaustive over 2^32 in the thorough tier","trusts the reference reader and the stated reading of 'malformed' string reads (only bounds/no-panic required there)","exhaustive small-scope enumeration + property-based testing against a reference model","§2 C17"),
}
ORDER=["C%02d"%i for i in range(1,21)]
hooks=subprocess.run(["git","-C","/repo","log","--format=%h %s"],capture_output=True,text=True).stdout.splitlines()
hook_commits=[l.split()[0] for l in hooks if l.split(' ',1)[1].startswith("verif hook")]
checks=[]
for pid in ORDER:
    if pid not in C: continue
    cat,text,note,tech,ref=C[pid]
    checks.append({"property_id":pid,"quick_cmd":f"./check.sh {pid} quick","thorough_cmd":f"./check.sh {pid} thorough",
      "evidence_file":f"evidence/{pid}.json","replay_cmd_template":f"./check.sh {pid} replay {{path}}","engine":"gdv",
      "level_claimed":{"category":cat,"text":text,"design_ref":"DESIGN.md "+ref},"level_note":note,"technique":tech})
na=[{"property_id":p,"reason":"check not built yet (work in progress; the technique applies, see DESIGN.md §2)"} for p in ORDER if p not in C]
m={"version":1,
 "setup_cmd":"cd /verif/harness && ( [ -f Cargo.lock ] || cp /repo/Cargo.lock Cargo.lock ) && CARGO_NET_OFFLINE=true cargo build --profile verif",
 "hooks":{"guard":"gamedig_verif",
  "enable":"--cfg gamedig_verif via /verif/harness/.cargo/config.toml; the harness depends on /repo/crates/lib by path, so each check rebuilds gamedig from /repo's working tree with the hook on",
  "baseline_off_cmd":"cd /repo && cargo test --workspace --no-fail-fast --offline",
  "source_commits":hook_commits[::-1],"add_only":True},
 "engines":[{"name":"gdv","path":"harness","serves_properties":[c["property_id"] for c in checks],
   "kind_free_text":"Rust binary: proptest value trees driven by an own runner (per-index seeds, same-signature shrinking, replay files), scripted in-process transport behind the cfg(gamedig_verif) socket seam, independent reference encoders, counting allocator, signature-keyed known findings"}],
 "checks":checks,"not_applicable":na,
 "notes":"exit 0 held / 1 violation (VIOLATION line) / 2 inconclusive. Known findings: known_findings.json. Replays found by a run are written to out/replays/<ID>/ (not committed); committed regression inputs are in replays/<ID>/."}
json.dump(m,open("/verif/MANIFEST.json","w"),indent=1)
print(len(checks),"checks;",len(na),"not applicable")
